(** C07, last sentence (the soft-wrap mark): executable statements.

    "A row stops being soft-wrapped when its tail is erased or characters are deleted from it."

    [holds_C07_wrapmark] states the sentence, row by row of the view, on the states before / after
    one editing command (ED, EL, ECH, ICH, DCH, DECALN); [kf1_C07] is the class of the known
    finding KF-C07-1 (EL 1 and the cursor row of ED 1 keep the mark although the erased extent
    [0 .. cursor] reaches the last cell of the row, i.e. the cursor is in the last column or in the
    wrap-pending position: the whole row, tail included, is blanked; [Buffer::erase] clears the mark
    for EL 0 / EL 2 / ED 0 / ECH reaching the end, not for [FromStartOfLineToCursor] /
    [FromStartOfViewToCursor]); [wrapmark_kept] says that the finding really manifests.

    Reading of the sentence.
    - "its tail is erased": the extent erased ON THAT ROW is not empty and includes the LAST cell of the row.
      Per function (cursor at column [col], row [row]; [nc] columns; [col = nc] is the wrap-pending position):
        ED 0  : rows below [row]: wholly erased; row [row]: extent [col, nc), tail erased iff [col < nc];
        ED 1  : rows above [row]: wholly erased; row [row]: extent [0, min (col+1) nc), tail erased iff [nc <= col+1];
        ED 2  : every row wholly erased;   ED 3: nothing of the view;
        EL 0 / EL 1 / EL 2 : row [row] only, extents as for ED 0 / ED 1 / the whole row;
        ECH n : row [row], extent [col, col + min n' (nc-col)) ([n' = max n 1]): tail erased iff [col < nc <= col+n'];
    - "characters are deleted from it": DCH on the cursor row (DCH always deletes at least one character:
      from the pending position it first steps back to the last column).
    - DECALN overwrites, ICH inserts: neither erases a tail nor deletes (ICH discards what falls off the right
      edge and may thereby leave only blanks from the cursor on; the model keeps the mark; the sentence does
      not speak about it and we claim what the model does: the mark is KEPT).
    - the converse (rows whose tail was not erased and from which nothing was deleted KEEP their mark, set or
      not) is claimed wherever a non-empty extent ends before the last cell, for all rows outside the extent,
      and for ICH / DECALN / ED 3.
    - NOT claimed ([NoClaim]): ED 0 / EL 0 / ECH issued in the wrap-pending position ([col = nc]).  The extent
      is empty - nothing is erased - yet the code clears the mark ([clear_cells nc nc] and [unwrap]).  "stops
      being soft-wrapped WHEN" is not "ONLY when": the sentence does not forbid it, so this is not a finding;
      the converse is simply not claimed there (Proofs/C07Wrap.v [C07_pending_unwraps] states what happens).

    Definitions only (extracted to OCaml); the theorems are in [Proofs/C07Wrap.v]. *)

From Avt Require Export Spec.Screen.

(** what the sentence says about one row *)
Inductive row_claim :=
| Unwrapped   (* tail erased / characters deleted: NOT soft-wrapped afterwards *)
| Keeps       (* neither: the mark is what it was *)
| NoClaim.    (* empty extent in the wrap-pending position *)

(** a row of [nc] cells of which the cells [a, z) are erased *)
Definition extent_claim (a z nc : nat) : row_claim :=
  if a <? z then (if nc <=? z then Unwrapped else Keeps) else NoClaim.

Definition is_edit (f : func) : bool :=
  match f with Ed _ | El _ | Ech _ | Ich _ | Dch _ | Decaln => true | _ => false end.

(** [t]: the terminal before the command; [r]: a row of the view *)
Definition claim_at (t : term) (f : func) (r : nat) : row_claim :=
  let col := cur_col t in
  let row := cur_row t in
  let nc := cols t in
  match f with
  | Ed EdBelow =>
    if r <? row then Keeps else if r =? row then extent_claim col nc nc else Unwrapped
  | Ed EdAbove =>
    if r <? row then Unwrapped else if r =? row then extent_claim 0 (Nat.min (col + 1) nc) nc else Keeps
  | Ed EdAll => Unwrapped
  | Ed EdSavedLines => Keeps
  | El s =>
    if r =? row then
      match s with
      | ElToRight => extent_claim col nc nc
      | ElToLeft => extent_claim 0 (Nat.min (col + 1) nc) nc
      | ElAll => extent_claim 0 nc nc
      end
    else Keeps
  | Ech n => if r =? row then extent_claim col (col + Nat.min (n1 n) (nc - col)) nc else Keeps
  | Ich _ => Keeps
  | Dch _ => if r =? row then Unwrapped else Keeps
  | Decaln => Keeps
  | _ => NoClaim
  end.

Definition row_ok (c : row_claim) (l l' : line) : bool :=
  match c with
  | Unwrapped => negb (wrapped l')
  | Keeps => Bool.eqb (wrapped l) (wrapped l')
  | NoClaim => true
  end.

(** the sentence, for every row of the view.  It does NOT exempt the class of the known finding
    (it is false there, see [wrapmark_kept]); the harness evaluates it outside [kf1_C07]. *)
Definition holds_C07_wrapmark (pre : vt) (f : func) (post : vt) : bool :=
  let t := vterm pre in
  let t' := vterm post in
  if is_edit f then
    forallb (fun r =>
               match nth_error (tview t) r, nth_error (tview t') r with
               | Some l, Some l' => row_ok (claim_at t f r) l l'
               | _, _ => false
               end) (seq 0 (rows t))
  else true.

(** KF-C07-1: EL 1 / ED 1 with the cursor in the last column or in the wrap-pending position, on a
    soft-wrapped row *)
Definition kf1_C07 (pre : vt) (f : func) : bool :=
  let t := vterm pre in
  match f with
  | El ElToLeft | Ed EdAbove =>
    (cols t <=? cur_col t + 1) && wrapped (row_at (tview t) (cur_row t))
  | _ => false
  end.

(** in the class of the known finding: afterwards the cursor row consists of blanks (current pen) only - its
    tail WAS erased - and it is still soft-wrapped *)
Definition wrapmark_kept (pre : vt) (f : func) (post : vt) : bool :=
  let t := vterm pre in
  kf1_C07 pre f
  && match nth_error (tview (vterm post)) (cur_row t) with
     | Some l' => list_eqb cell_eqb (cells l') (blanks (cols t) (tpen t)) && wrapped l'
     | None => false
     end.
