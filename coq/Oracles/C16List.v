(** C16, a return from the alternate screen INSIDE A MODE LIST ([CSI ? 1049 ; 6 l], [CSI ? 47 ; 25 l], ...): the cursor-aware
    text clause of [holds_C16_return_text] for lists whose first element is the leaving mode and whose remaining elements do
    not switch screens.  The cursor that decides where the parked primary may be cut is the one in force AT THE MOMENT OF THE
    RETURN - the alternate screen's cursor for 47 / 1047, the saved one for 1049 - whatever the later elements of the list do
    to the cursor afterwards ([?6l] homes it): everything above that cursor's logical line, and everything before the cursor in
    it, survives.  (Seeded change C16_8: one reflow after the whole list instead of one per switching mode fits the parked
    primary with the homed cursor and drops rows above the restored one.)  Executable statement only; proved in
    [Proofs/C16List.v]. *)

From Avt Require Export Oracles.Step Oracles.Rel Oracles.C16Text Spec.Logical.

Definition switches (m : dec_mode) : bool :=
  match m with AltScreenBuffer | SaveCursorAltScreenBuffer => true | _ => false end.

Definition holds_C16_return_list (pre : vt) (f : func) (post : vt) : bool :=
  let t := vterm pre in
  let t' := vterm post in
  if is_alt_b t && negb (is_alt_b t') then
    match f with
    | Decrst (m :: rest) =>
      if forallb (fun x => negb (switches x)) rest then
        let L := logical_t (lines (other t)) in
        let L' := logical_t (lines (buf t')) in
        match m with
        | AltScreenBuffer =>
          let '(k, o) := curs (other t) (cur_col t) (cur_row t) in text_upto L L' k o
        | SaveCursorAltScreenBuffer =>
          let c := saved_of t Primary in
          let '(k, o) := curs (other t) (sc_col c) (sc_row c) in text_upto L L' k o
        | _ => true
        end
      else true
    | _ => true
    end
  else true.

(** the same for a leaving mode in ANY position of the list: [before] (no switching mode) is executed first - it may move the
    cursor ([?6l]) - then the leaving mode [m], then [rest] (no switching mode); the cursor that counts is the one after [before] *)
Import ListNotations.

Fixpoint split_switch (ms : list dec_mode) : option (list dec_mode * dec_mode * list dec_mode) :=
  match ms with
  | [] => None
  | m :: r =>
    if switches m then Some ([], m, r)
    else match split_switch r with
         | Some (a, x, b) => Some (m :: a, x, b)
         | None => None
         end
  end.

Definition holds_C16_return_list_any (pre : vt) (f : func) (post : vt) : bool :=
  let t := vterm pre in
  let t' := vterm post in
  if is_alt_b t && negb (is_alt_b t') then
    match f with
    | Decrst ms =>
      match split_switch ms with
      | Some (before, m, rest) =>
        if forallb (fun x => negb (switches x)) rest then
          match foldM decrst_one before t with
          | Ok u =>
            let L := logical_t (lines (other t)) in
            let L' := logical_t (lines (buf t')) in
            match m with
            | AltScreenBuffer =>
              let '(k, o) := curs (other t) (cur_col u) (cur_row u) in text_upto L L' k o
            | SaveCursorAltScreenBuffer =>
              let c := saved_of u Primary in
              let '(k, o) := curs (other t) (sc_col c) (sc_row c) in text_upto L L' k o
            | _ => true
            end
          | Panic _ => true
          end
        else true
      | None => true
      end
    | _ => true
    end
  else true.
