(** Executable classes of known findings that had no Coq-defined classifier (definitions only; extracted).

    KF-C17-1: a soft reset (DECSTR) executed while the screen on which a cursor context was saved is shown
    re-initialises that saved context to the power-on defaults (DEC STD 070), so a following restore does
    not re-establish the context in force at the save.  The step [f] executed in state [pre] is in the class
    iff it is DECSTR and the saved context of the screen showing ([sctx]) is not already the default one
    (when it is, DECSTR leaves it as it is and nothing is lost).
    Proofs/Audit2Misc.v: [C17_kf1_exact] (the deviation on the WHOLE class), [C17_kf1_outside] (no
    deviation outside it), [no_save_reset_on_split] (what the hypothesis of [C17_round_trip] excludes). *)
From Coq Require Import List Arith NArith Bool.
From Avt Require Import Model.Vt Spec.Screen Spec.Eqb Oracles.Step.
Import ListNotations.

Definition kf1_C17 (pre : vt) (f : func) : bool :=
  match f with
  | Decstr => negb (ctx_eqb (sctx (vterm pre)) default_ctx)
  | _ => false
  end.
