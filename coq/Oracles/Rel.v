(** Executable statements of the relational properties: two states, or a state and an
    input, or two whole runs. *)

From Avt Require Export Oracles.Step Spec.Logical.
Local Open Scope N_scope.

(** * C09 *)

(** split the fed characters on CR LF *)
Fixpoint split_crlf (s : list N) (cur : list N) : list (list N) :=
  match s with
  | [] => [rev cur]
  | 13 :: 10 :: r => rev cur :: split_crlf r []
  | c :: r => split_crlf r (c :: cur)
  end.

Definition printable_c09 (c : N) : bool := ((32 <=? c) && (c <=? 127)) || (160 <=? c).

Definition text_eqb := list_eqb (list_eqb N.eqb).

(** [input]: everything fed since construction (printables and CR LF only);
    [txt]: what text() returned; [unw]: TextUnwrapper folded over lines() *)
Definition holds_C09 (input : list N) (txt unw : list (list N)) : bool :=
  let ls := split_crlf input [] in
  if forallb (forallb printable_c09) ls then
    let expect := strip_empty_tail (map trim_end ls) in
    text_eqb (strip_empty_tail txt) expect
    && text_eqb (strip_empty_tail (map trim_end unw)) expect
  else true.

Local Close Scope N_scope.

(** * C10 (one resize call on the primary screen, unlimited scrollback) *)
Definition holds_C10 (pre post : vt) : bool :=
  let t := vterm pre in
  let t' := vterm post in
  match active t, sb_limit t with
  | Primary, None =>
    resize_preserves (buf t) (cur_col t) (cur_row t) (buf t') (cur_col t') (cur_row t')
  | _, _ => true
  end.

(** * C16.4: leaving the alternate screen after a resize re-wraps the parked primary.
    The cursor used for the translation is the one in force when the reflow runs: for 1049
    the restored (saved) cursor, for 47/1047 the alternate screen's cursor. *)
Definition holds_C16_resized (pre : vt) (f : func) (post : vt) : bool :=
  let t := vterm pre in
  let t' := vterm post in
  if is_alt_b t && negb (is_alt_b t') then
    match f, sb_limit t with
    | Decrst [SaveCursorAltScreenBuffer], None =>
      let c := saved_of t Primary in
      resize_preserves (other t) (sc_col c) (sc_row c) (buf t') (cur_col t') (cur_row t')
      && holds_C02_state post
    | Decrst [AltScreenBuffer], None =>
      (* the cursor may lie outside the parked geometry; only the text is claimed *)
      holds_C02_state post
    | _, _ => true
    end
  else true.

(** * C12 / C11: observational equality of two terminals *)

(** everything a continuation can depend on, except scrollback, dirty flags and trim state *)
Definition obs_buffer_eqb (a b : buffer) : bool :=
  lines_eqb (view a) (view b) && Nat.eqb (bcols a) (bcols b) && Nat.eqb (brows a) (brows b).

Definition obs_eqb_term (a b : term) : bool :=
  term_scalars_eqb (a <| sb_limit := None |>) (b <| sb_limit := None |>)
  && obs_buffer_eqb (buf a) (buf b)
  && (match active a with
      | Alternate => obs_buffer_eqb (other a) (other b)
      | Primary => true      (* the parked alternate buffer is discarded on entry *)
      end).

(** parser: same state; the parameters only matter up to [cur_param], parts up to [cur_part] *)
Definition obs_params (p : parser) : list (list N) :=
  map pparts (firstn (S (cur_param p)) (params p)).

Definition obs_eqb_parser (a b : parser) : bool :=
  pstate_eqb (pst a) (pst b)
  && match pst a with
     | Ground | OscString | SosPmApcString | DcsPassthrough | DcsIgnore | CsiIgnore => true
     | Escape | CsiEntry | DcsEntry => true
     | EscapeIntermediate | CsiIntermediate | DcsIntermediate => opt_eqb N.eqb (inter a) (inter b)
     | CsiParam | DcsParam =>
       opt_eqb N.eqb (inter a) (inter b)
       && list_eqb (list_eqb N.eqb) (obs_params a) (obs_params b)
     end.

Definition holds_C12 (a b : vt) : bool :=
  obs_eqb_term (vterm a) (vterm b) && parser_eqb (vparser a) (vparser b)
  && (match sb_limit (vterm a), active (vterm a) with
      | None, Primary => lines_eqb (lines (buf (vterm a))) (lines (buf (vterm b)))
      | None, Alternate => lines_eqb (lines (other (vterm a))) (lines (other (vterm b)))
      | _, _ => true
      end).

(** known finding KF-C12-1: per-character feed() with the alternate screen showing keeps
    rows scrolled off it in lines() *)
Definition known_C12 (perchar : vt) : bool :=
  is_alt_b (vterm perchar) && (rows (vterm perchar) <? length (lines (buf (vterm perchar)))).

Definition holds_C12_lines (a b : vt) : bool :=
  Nat.eqb (length (lines (buf (vterm a)))) (length (lines (buf (vterm b)))).

(** * C11 *)
Definition dumpable (t : term) : bool :=
  (N.of_nat (cols t) <=? 65534)%N && (N.of_nat (rows t) <=? 65535)%N.

Definition kf1_C11 (t : term) : bool := org t && ((cur_row t <? top t) || (bot t <? cur_row t)).
Definition kf2_C11 (t : term) : bool :=
  is_alt_b t && negb ((bcols (other t) =? cols t) && (brows (other t) =? rows t)).
Definition kf3_C11 (t : term) : bool := negb (dumpable t).

(** original vs restored: what the dump promises to reproduce *)
(** the inactive screen's saved context is only ever read after being clamped into the
    screen on activation; without a resize (the property quantifies over input) only its
    clamped value is observable *)
Definition norm_C11 (t : term) : term :=
  t <| sb_limit := None |> <| asctx := clamp_ctx (asctx t) (cols t) (rows t) |>.

Definition holds_C11 (orig restored : vt) : bool :=
  let a := vterm orig in
  let b := vterm restored in
  obs_eqb_term (norm_C11 a) (norm_C11 b)
  && obs_eqb_parser (vparser orig) (vparser restored)
  && (match active a with
      | Alternate => obs_buffer_eqb (other a) (other b)
      | Primary => true
      end).

(** * C14 *)
Definition holds_C14 (drained_L lines_L lines_inf : list line) : bool :=
  lines_eqb (drained_L ++ lines_L) lines_inf.
