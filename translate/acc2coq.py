"""acc2coq: the public constructors and accessors of src/vt.rs (Vt::new / builder / size / view / lines / line / text /
cursor / cursor_key_app_mode, Builder::*), the Terminal-level functions they call (Terminal::new / default / view / lines /
line / text / cursor / cursor_keys_app_mode, Cursor::default, SavedCtx::default, Parser::new, Param::new / default,
Buffer::lines), the accessors of src/line.rs and src/cell.rs (Line::is_empty / cells / chars / text, Cell::*), the
conversions of terminal/cursor.rs and TextUnwrapper::new, TextCollector::new / feed_str / resize of src/util.rs as Gallina
(Gen/AccFns.v), one definition `g_<type>_<fn>` per Rust function.  Built on rest2coq / buf2coq (same AST, same places,
guards and panic monad; see their headers for the semantics of the common fragment).  This file adds:

  * the structs Vt (model record [vt]), Builder and Cursor (records [builder], [cursor] of the prelude of AccFns.v),
    SavedCtx ([saved_ctx]), Terminal ([term]: `cursor` is the three fields cur_col / cur_row / cur_vis, `charsets` the
    two fields cs0 / cs1 (the literal must be a two-element array), `scrollback_limit: Option<usize>` is kept as
    `option N` (N.of_nat / N.to_nat at the boundary), `cursor_keys_mode` is the bool "== Application"), Changes ([out]:
    `lines` o_lines, `scrollback` o_drained, the drained lines as a list), the tuple struct Cell ([cell]: .0 ch, .1 cpen);
    every declaration is checked against the source;
  * `Self { .. }` / `Self::f(..)` in an impl; trait impls (`impl Default for T`, `impl From<..> for T`,
    `impl PartialEq<..> for Cursor`) located by their header; `#[derive(Default)]` (Parser, TextUnwrapper:
    `Default::default()` / `Self::default()` is the field-wise default: 0, None, empty String, `#[default]` variant,
    `[T; N]` = N copies of `T::default()`);
  * builder methods `fn f(&mut self, ..) -> &mut Self { ..; self }` (the value of a call is the updated receiver), method
    calls on values that are not places (`Self::builder().size(c, r).build()`, `self.primary_buffer().text()`), tuple
    patterns as parameters (`(cols, rows): (usize, usize)`: two Gallina arguments), array literals `[a, b, ..]`,
    `it.map(Type::f)` (mapM over the regenerated g_type_f), `==` on the enums BufferType / CursorKeysMode (both derive
    PartialEq: checked), `x.into()` from u8 / u16 / u32 to usize as an argument of Vt::resize;
  * ABSTRACTED callees (parameters `c_..` of the generated definition, as in rest2coq): `char::width()` of the external
    crate unicode_width (`c_char_width : N -> option nat`), `Vt::feed_str` / `Vt::resize` (`c_vt_feed_str`,
    `c_vt_resize : vt -> .. -> res (vt * out)`; they are regenerated and tied elsewhere: Gen/VtFns.v, Proofs/VtTie.v);
    the `impl Iterator` returned by TextCollector::feed_str / resize is translated as the list of ALL its items (the
    caller consumes the iterator completely; a partially consumed iterator leaves the unwrapper in an earlier state);
  * already regenerated functions are called, not re-emitted: Gen/BufFns.v (Buffer::new / view, Line::blank / len,
    Tabs::new, DirtyLines::new ..), Gen/RestFns.v (Buffer::text, TextUnwrapper::push), Gen/DumpFns.v
    ([g_term_primary_buffer], [g_pen_is_default]).

Anything else raises TErr naming the construct.  Guards of function number k carry the site 300+k.
"""
import contextlib

import buf2coq as B
import rest2coq as R
from buf2coq import TErr, Lens, Var, atom
from rustlex import find_fn, find_impl, text

# (type, fn) in emission order (callees are pulled in before their callers)
ROOTS = [
    ("Cell", "new"), ("Cell", "blank"), ("Cell", "is_default"), ("Cell", "char"), ("Cell", "pen"), ("Cell", "width"),
    ("Cell", "default"), ("Cell", "from"),
    ("Line", "is_empty"), ("Line", "cells"), ("Line", "chars"), ("Line", "text"),
    ("Buffer", "lines"),
    ("Param", "new"), ("Param", "default"), ("Parser", "new"),
    ("Cursor", "default"), ("CursorOption", "from"), ("Cursor", "eq"), ("SavedCtx", "default"),
    ("Terminal", "new"), ("Terminal", "default"), ("Terminal", "cursor"), ("Terminal", "view"), ("Terminal", "lines"),
    ("Terminal", "line"), ("Terminal", "text"), ("Terminal", "cursor_keys_app_mode"),
    ("Builder", "default"), ("Builder", "size"), ("Builder", "scrollback_limit"), ("Builder", "build"),
    ("Vt", "builder"), ("Vt", "new"), ("Vt", "size"), ("Vt", "view"), ("Vt", "lines"), ("Vt", "line"), ("Vt", "text"),
    ("Vt", "cursor"), ("Vt", "cursor_key_app_mode"),
    ("TextUnwrapper", "new"), ("TextCollector", "new"), ("TextCollector", "feed_str"), ("TextCollector", "resize"),
]
# functions of trait impls: located by the impl header
IMPL_HDR = {
    ("Cell", "default"): ["Default", "for", "Cell"],
    ("Cell", "from"): ["From", "<", "char", ">", "for", "Cell"],
    ("Param", "default"): ["Default", "for", "Param"],
    ("SavedCtx", "default"): ["Default", "for", "SavedCtx"],
    ("Cursor", "default"): ["Default", "for", "Cursor"],
    ("Cursor", "eq"): ["PartialEq", "<", "(", "usize", ",", "usize", ")", ">", "for", "Cursor"],
    ("CursorOption", "from"): ["From", "<", "Cursor", ">", "for", "Option", "<", "(", "usize", ",", "usize", ")", ">"],
    ("Terminal", "default"): ["Default", "for", "Terminal"],
    ("Builder", "default"): ["Default", "for", "Builder"],
}
SOURCE_NAME = {"cell": "cell.rs", "line": "line.rs", "buffer": "buffer.rs", "parser": "parser.rs", "cursor": "terminal/cursor.rs",
               "terminal": "terminal.rs", "vt": "vt.rs", "util": "util.rs"}

FILE_OF = dict(B.FILE_OF)
FILE_OF.update(R.FILE_OF)
FILE_OF.update({"Vt": "vt", "Builder": "vt", "Terminal": "terminal", "Cursor": "cursor", "CursorOption": "cursor",
                "Cell": "cell", "SavedCtx": "terminal"})
PREFIX = dict(B.PREFIX)
PREFIX.update(R.PREFIX)
PREFIX.update({"Vt": "vt", "Builder": "builder", "Terminal": "terminal", "Cursor": "cursor", "CursorOption": "cursor_option",
               "Cell": "cell", "SavedCtx": "savedctx"})
SELF_TY = dict(B.SELF_TY)
SELF_TY.update(R.SELF_TY)
SELF_TY.update({"Vt": "vt", "Builder": "builder", "Terminal": "term", "Cursor": "cursor", "Cell": "cell", "SavedCtx": "saved_ctx",
                "CursorOption": ("option", ("tuple", ["nat", "nat"]))})
STRUCT_TY = dict(R.STRUCT_TY)
STRUCT_TY.update({"vt": "Vt", "builder": "Builder", "term": "Terminal", "cursor": "Cursor", "cell": "Cell",
                  "saved_ctx": "SavedCtx", "changes": "Changes"})
COQ_TY = dict(R.COQ_TY)
COQ_TY.update({"ckmode": "bool", "changes": "out"})
SIMPLE_TY = {"Vt": "vt", "Builder": "builder", "Cursor": "cursor", "Terminal": "term", "Parser": "parser", "SavedCtx": "saved_ctx"}
STRING = R.STRING

# the 23 fields of struct Terminal: (rust field, rust type, model projection | None = special, model type)
TERM_FIELDS = [
    ("cols", "usize", "cols", "nat"), ("rows", "usize", "rows", "nat"), ("buffer", "Buffer", "buf", "buffer"),
    ("other_buffer", "Buffer", "other", "buffer"), ("active_buffer_type", "BufferType", "active", "btype"),
    ("scrollback_limit", "Option < usize >", None, ("option", "nat")), ("cursor", "Cursor", None, "cursor"),
    ("pen", "Pen", "tpen", "pen"), ("charsets", "[ Charset ; 2 ]", None, ("list", "charset")),
    ("active_charset", "usize", "acs", "nat"), ("tabs", "Tabs", "tabs", ("list", "nat")),
    ("insert_mode", "bool", "ins", "bool"), ("origin_mode", "bool", "org", "bool"), ("auto_wrap_mode", "bool", "awm", "bool"),
    ("new_line_mode", "bool", "nlm", "bool"), ("cursor_keys_mode", "CursorKeysMode", "ckm", "ckmode"),
    ("pending_wrap", "bool", "pend", "bool"), ("top_margin", "usize", "top", "nat"), ("bottom_margin", "usize", "bot", "nat"),
    ("saved_ctx", "SavedCtx", "sctx", "saved_ctx"), ("alternate_saved_ctx", "SavedCtx", "asctx", "saved_ctx"),
    ("dirty_lines", "DirtyLines", "dirty", ("list", "bool")), ("xtwinops", "bool", "xtw", "bool"),
]
# reading a special field of a term T
TERM_READ = {"scrollback_limit": "option_map N.to_nat (sb_limit %s)", "cursor": "mkCursor (cur_col %s) (cur_row %s) (cur_vis %s)",
             "charsets": "[cs0 %s; cs1 %s]"}
STRUCTS = dict(R.STRUCTS)
STRUCTS.update({
    "Vt": ("mkVt", [("parser", "Parser", "vparser", "parser"), ("terminal", "Terminal", "vterm", "term")]),
    "Builder": ("mkBuilder", [("size", "usize , usize", "b_size", ("tuple", ["nat", "nat"])),
                              ("scrollback_limit", "Option < usize >", "b_scrollback_limit", ("option", "nat"))]),
    "Cursor": ("mkCursor", [("col", "usize", "cu_col", "nat"), ("row", "usize", "cu_row", "nat"),
                            ("visible", "bool", "cu_visible", "bool")]),
    "SavedCtx": ("mkCtx", [("cursor_col", "usize", "sc_col", "nat"), ("cursor_row", "usize", "sc_row", "nat"),
                           ("pen", "Pen", "sc_pen", "pen"), ("origin_mode", "bool", "sc_origin", "bool"),
                           ("auto_wrap_mode", "bool", "sc_awm", "bool")]),
    "Terminal": (None, [f for f in TERM_FIELDS if f[2] is not None]),
    "Cell": ("mkCell", [("0", "char", "ch", "char"), ("1", "Pen", "cpen", "pen")]),
    "Changes": ("mkOut", [("lines", "Vec < usize >", "o_lines", ("list", "nat")),
                          ("scrollback", "Box < dyn Iterator < Item = Line > + 'a >", "o_drained", ("list", "line"))]),
})
STRUCT_FILE = {"Vt": "vt", "Builder": "vt", "Cursor": "cursor", "SavedCtx": "terminal"}
CHANGES_DECL = "pub struct Changes < 'a > { pub lines : Vec < usize > , pub scrollback : Box < dyn Iterator < Item = Line > + 'a > , }"
# enums used as values: model type -> (rust name, file, {variant: gallina}, eqb)
ENUM_VALS = {
    "ckmode": ("CursorKeysMode", "terminal", {"Normal": "false", "Application": "true"}, "Bool.eqb"),
    "btype": ("BufferType", "terminal", {"Primary": "Primary", "Alternate": "Alternate"}, "btype_eqb"),
    "charset": ("Charset", "charset", {"Ascii": "CsAscii", "Drawing": "CsDrawing"}, None),
}
# structs with #[derive(Default)] and no hand-written impl: name -> file
DERIVE_DEFAULT = {"Parser": "parser", "TextUnwrapper": "util"}
# methods of Vt that are abstracted in their callers: name -> (signature text, argument types, Coq type of the parameter)
VT_ABSTRACT = {
    "feed_str": ("pub fn feed_str ( & mut self , s : & str ) -> Changes {", [STRING], "vt -> list N -> res (vt * out)"),
    "resize": ("pub fn resize ( & mut self , cols : usize , rows : usize ) -> Changes {", ["nat", "nat"],
               "vt -> nat -> nat -> res (vt * out)"),
}
# functions of Gen/RestFns.v that may be called from here (no fuel parameters)
R_CALLABLE = {("Buffer", "text"), ("TextUnwrapper", "push"), ("TextUnwrapper", "flush")}


@contextlib.contextmanager
def patched():
    """the tables of buf2coq / rest2coq are module globals: extend them for the duration of one generation"""
    tabs = {"STRUCTS": STRUCTS, "SELF_TY": SELF_TY, "FILE_OF": FILE_OF, "PREFIX": PREFIX, "STRUCT_TY": STRUCT_TY}
    old = [(m, k, getattr(m, k)) for m in (B, R) for k in tabs] + [(B, "cty", B.cty), (R, "COQ_TY", R.COQ_TY)]
    try:
        for m in (B, R):
            for k, v in tabs.items():
                setattr(m, k, v)
        B.cty = R.cty
        R.COQ_TY = COQ_TY
        yield
    finally:
        for m, k, v in old:
            setattr(m, k, v)


cty, cty_a = R.cty, R.cty_a


# ------------------------------------------------------------------------------ syntax

class AParser(R.RParser):
    """rest2coq.RParser + the type names of this file + array literals ('array', [e])"""

    def ty(self, self_ty):
        k, t = self.peek()
        if k == "id" and t in SIMPLE_TY:
            self.eat()
            return SIMPLE_TY[t]
        return super().ty(self_ty)

    def primary(self):
        k, t = self.peek()
        if k == "punct" and t == "[":
            self.eat()
            old, self.no_struct = getattr(self, "no_struct", False), False
            es = []
            while not self.at("]"):
                es.append(self.expr())
                if self.at(";"):
                    self.err("unsupported: array repeat expression [x; n]")
                if not self.at("]"):
                    self.eat(",")
            self.eat("]")
            self.no_struct = old
            return ("array", es)
        return super().primary()


# ------------------------------------------------------------------------------ one function

class AFnTr(R.RFnTr):
    def real(self):
        """the struct `Self` names inside this impl"""
        t = self.f.tname
        if t == "CursorOption":
            self.err("unsupported: `Self` in impl .. for Option<(usize, usize)>")
        return t

    # -- expressions
    def expr(self, e, env, pre, stmt=False):
        k = e[0]
        if k == "struct":
            name = self.real() if e[1] == "Self" else e[1]
            if name == "Terminal":
                return self.terminal_literal(e, env, pre)
            if name == "TextCollector":
                given = dict(e[2])
                if sorted(given) != ["unwrapper", "vt"] or len(e[2]) != 2:
                    self.err("struct literal TextCollector: fields %s" % [f for f, _ in e[2]])
                vals = {f: self.expr(ex, env, pre) for f, ex in e[2]}
                self.unify(vals["vt"][1], "vt", "field vt")
                self.unify(vals["unwrapper"][1], "unwrapper", "field unwrapper")
                return "(%s, %s)" % (vals["vt"][0], vals["unwrapper"][0]), "collector"
            if name not in ("Vt", "Builder", "Cursor", "SavedCtx", "Param"):
                self.err("unsupported: struct literal " + name)
            return super().expr(("struct", name, e[2]), env, pre, stmt)
        if k == "array":
            if not e[1]:
                self.err("unsupported: empty array literal")
            vs = [self.expr(x, env, pre) for x in e[1]]
            ty = None
            for _, t in vs:
                ty = self.unify(ty, t, "array literal")
            if ty == "int":
                ty = "nat"
            gs = [("%s§N" % g if t == "int" and ty in R.NTY else g) for g, t in vs]
            return "[%s]" % "; ".join(gs), ("list", ty)
        if k == "path" and len(e[1]) == 2:
            for ty, (ename, _, ctors, _) in ENUM_VALS.items():
                if e[1][0] == ename:
                    if e[1][1] not in ctors:
                        self.err("unknown variant %s" % "::".join(e[1]))
                    return ctors[e[1][1]], ty
        return super().expr(e, env, pre, stmt)

    def terminal_literal(self, e, env, pre):
        names = [f for f, _ in e[2]]
        if sorted(names) != sorted(f[0] for f in TERM_FIELDS):
            self.err("struct literal Terminal: fields %s" % names)
        vals = {}
        for f, ex in e[2]:                                 # Rust evaluates the field expressions in source order
            if f == "charsets":
                if ex[0] != "array" or len(ex[1]) != 2:
                    self.err("unsupported: Terminal.charsets is not a two-element array literal")
                vals[f] = [self.expr(x, env, pre) for x in ex[1]]
            else:
                vals[f] = self.expr(ex, env, pre)
        out = []
        for rf, _, proj, mty in TERM_FIELDS:
            if rf == "charsets":
                for (g, t), p in zip(vals[rf], ("cs0", "cs1")):
                    self.unify(t, "charset", "field charsets of Terminal")
                    out.append("%s := %s" % (p, g))
                continue
            g, t = vals[rf]
            self.unify(t, mty, "field %s of Terminal" % rf)
            if rf == "scrollback_limit":
                out.append("sb_limit := option_map N.of_nat %s" % atom(g))
            elif rf == "cursor":
                out += ["cur_col := cu_col %s" % atom(g), "cur_row := cu_row %s" % atom(g), "cur_vis := cu_visible %s" % atom(g)]
            else:
                out.append("%s := %s" % (proj, g))
        return "{| %s |}" % "; ".join(out), "term"

    def binop(self, e, env, pre):
        if e[1] in ("==", "!="):
            n_tmp, scratch = self.n_tmp, []
            ga, ta = self.expr(e[2], env, scratch)
            gb, tb = self.expr(e[3], env, scratch)
            if ta == tb and isinstance(ta, str) and ta in ENUM_VALS and ENUM_VALS[ta][3]:
                if scratch:
                    if pre is None:
                        self.err("an operation that needs sequencing inside `%s`" % e[1])
                    pre.extend(scratch)
                g = "%s %s %s" % (ENUM_VALS[ta][3], atom(ga), atom(gb))
                return ("negb (%s)" % g if e[1] == "!=" else g), "bool"
            self.n_tmp = n_tmp
        return super().binop(e, env, pre)

    # -- calls
    def call(self, e, env, pre):
        path, args = e[1], e[2]
        if len(path) == 2 and path[0] == "Self":
            path = [self.real(), path[1]]
            e = ("call", path, args)
        if path == ["Default", "default"] and not args:
            if self.f.body != ([], e) or not isinstance(self.f.ret, str) or self.f.ret not in STRUCT_TY:
                self.err("unsupported: Default::default() that is not the whole body of a function returning a struct")
            return self.derived_default(STRUCT_TY[self.f.ret], pre)
        if len(path) == 2 and path[1] == "default" and not args and path[0] in DERIVE_DEFAULT:
            return self.derived_default(path[0], pre)
        if path == ["Cell"] and len(args) == 2:
            gc, tc = self.expr(args[0], env, pre)
            gp, tp = self.expr(args[1], env, pre)
            self.unify(tc, "char", "Cell(..)")
            self.unify(tp, "pen", "Cell(..)")
            return "mkCell %s %s" % (atom(gc), atom(gp)), "cell"
        return super().call(e, env, pre)

    def derived_default(self, sname, pre):
        """#[derive(Default)] (checked in check_sources): every field is its type's default"""
        if sname not in DERIVE_DEFAULT:
            self.err("unsupported: default() of %s (no #[derive(Default)] known)" % sname)
        ctor, fields = STRUCTS[sname]
        gs = []
        for _, rty, _, mty in fields:
            if rty == "usize":
                gs.append("0")
            elif rty == "String":
                gs.append("[]")
            elif rty.startswith("Option <"):
                gs.append("None")
            elif rty == "State":
                gs.append("Ground")                      # `#[default] Ground` (checked)
            elif rty == "[ Param ; PARAMS_LEN ]":
                f = self.tr.need("Param", "default")
                if f.selfk is not None or f.params or f.ret != "param":
                    self.err("unexpected signature of Param::default")
                t = self.fresh()
                self.put(pre, "%s <- %s ;;" % (t, f.gname))
                gs.append("repeat %s PARAMS_LEN" % t)
            else:
                self.err("unsupported: derived Default of a field of type %s" % rty)
        ty = {v: k for k, v in STRUCT_TY.items()}[sname]
        if ctor is None:
            if len(gs) != 1:
                self.err("internal: derived Default of %s" % sname)
            return gs[0], ty
        return "%s %s" % (ctor, " ".join(atom(g) for g in gs)), ty

    def user_args(self, f, args, env, pre):
        if len(args) != len(f.params):
            self.err("call of %s::%s with %d arguments" % (f.tname, f.name, len(args)))
        gs = []
        for a, (pt, ty) in zip(args, f.params):
            g, t = self.expr(a, env, pre)
            self.unify(t, ty, "argument of %s::%s" % (f.tname, f.name))
            if t == "int" and (ty in R.NTY or ty == "isize"):
                g = "%s§%s" % (atom(g), "Z" if ty == "isize" else "N")     # an unsuffixed literal at an N / Z type
            if pt[0] == "ptuple":                         # bind_param made one Gallina argument per component
                if len(pt[1]) != 2 or any(q[0] != "pvar" for q in pt[1]) or t == "range":
                    self.err("unsupported: tuple pattern parameter of %s::%s" % (f.tname, f.name))
                gs += ["(fst %s)" % atom(g), "(snd %s)" % atom(g)]
            elif t == "range":
                if g[0] is None or g[1] is None:
                    self.err("unsupported: open range as an argument")
                gs += [atom(g[0]), atom(g[1])]
            else:
                gs.append(atom(g))
        return gs

    def user_call(self, f, recv_lens, args, env, pre):
        if getattr(f, "callees", None):
            self.err("unsupported: call of %s::%s, which has abstracted callees %s" % (f.tname, f.name, sorted(f.callees)))
        return super().user_call(f, recv_lens, args, env, pre)

    def vt_call(self, lens, name, args, env, pre):
        """self.vt.feed_str(s) / self.vt.resize(c, r): the callee is a parameter; yields the Changes"""
        _, ptys, cty_ = VT_ABSTRACT[name]
        if pre is None:
            self.err("call of Vt::%s in a position where it cannot be sequenced" % name)
        if len(args) != len(ptys):
            self.err("call of Vt::%s with %d arguments" % (name, len(args)))
        gs = []
        for a, want in zip(args, ptys):
            g, t = self.expr(a, env, pre)
            if isinstance(t, tuple) and t[0] == "into":
                if t[1] not in ("u8", "u16", "u32") or want != "nat":
                    self.err("unsupported: .into() from %s to %s" % (t[1], want))
                g = "N.to_nat %s" % atom(g)
            else:
                self.unify(t, want, "argument of Vt::" + name)
            gs.append(atom(g))
        cur = atom(self.load(lens, pre))
        t1, t2 = self.fresh(), self.fresh()
        self.callees["c_vt_" + name] = cty_
        self.put(pre, "'(%s, %s) <- c_vt_%s %s %s ;;" % (t1, t2, name, cur, " ".join(gs)))
        self.store(pre, lens, t1, env)
        return t2

    # -- places
    def place(self, e, env, pre):
        if e[0] == "mcall" and e[2] in VT_ABSTRACT and e[1][0] in ("field", "var", "self"):
            p = self.place(e[1], env, pre)
            if p.ty == "vt":
                return Lens("ro", "changes", g=self.vt_call(p, e[2], e[3], env, pre))
        return super().place(e, env, pre)

    def field_lens(self, p, name):
        if p.ty == "collector":
            for rf, _, proj, ty in STRUCTS["TextCollector"][1]:
                if rf == name:
                    return Lens("field", ty, par=p, a=proj)
            self.err("unknown field TextCollector.%s" % name)
        if p.ty == "term" and name in TERM_READ:
            cur = atom(self.load(p, None))
            mty = [f[3] for f in TERM_FIELDS if f[0] == name][0]
            return Lens("ro", mty, g=TERM_READ[name].replace("%s", cur))
        if p.ty == "changes" and p.kind == "ro":
            for rf, _, proj, ty in STRUCTS["Changes"][1]:
                if rf == name:
                    return Lens("ro", ty, g="%s %s" % (proj, atom(p.g)))
            self.err("unknown field Changes.%s" % name)
        sname = STRUCT_TY.get(p.ty) if isinstance(p.ty, str) else None
        if p.kind == "ro" and sname in ("Cursor", "Builder", "SavedCtx", "Vt", "Cell"):      # a field of a struct value
            for rf, _, proj, ty in STRUCTS[sname][1]:
                if rf == name:
                    return Lens("ro", ty, g="%s %s" % (proj, atom(p.g)))
            self.err("unknown field %s.%s" % (sname, name))
        return super().field_lens(p, name)

    def store(self, pre, lens, new, env):
        if lens.kind == "field" and lens.par.ty == "collector":
            cur = atom(self.load(lens.par, pre))
            pair = "(%s, snd %s)" % (new, cur) if lens.a == "fst" else "(fst %s, %s)" % (cur, new)
            return self.store(pre, lens.par, pair, env)
        if lens.kind == "field" and lens.par.ty == "term":
            self.err("unsupported: assignment to a field of Terminal")
        return super().store(pre, lens, new, env)

    # -- method calls
    def mcall(self, e, env, pre, stmt):
        recv, name, args = e[1], e[2], e[3]
        if name == "into" and not args:
            g, t = self.expr(recv, env, pre)
            return g, ("into", t)                          # only an argument of Vt::resize accepts this type
        if recv[0] in ("call", "mcall") and not self.is_iter_chain(recv) \
                and not (recv[0] == "mcall" and recv[2] in ("view", "view_mut", "last", "last_mut")):
            g, ty = self.expr(recv, env, pre)              # the receiver is a value, not a place
            return self.method_on_value(g, ty, name, args, env, pre, stmt)
        if recv[0] == "field" and name in B.ITER_METHODS and not self.is_iter_chain(recv):
            n_tmp, scratch = self.n_tmp, []
            lens = self.place(recv, env, scratch)
            if lens.kind == "ro" and isinstance(lens.ty, tuple) and lens.ty[0] == "list":
                if pre is None and scratch:
                    self.err("a call that needs sequencing in the receiver of .%s" % name)
                if scratch:
                    pre.extend(scratch)
                return self.iter_method(lens.g, lens.ty, name, args, env, pre)
            if scratch:
                self.err("unsupported receiver of .%s" % name)
            self.n_tmp = n_tmp
        if recv[0] in ("field", "var", "self", "paren", "ref", "deref", "index"):
            n_tmp, scratch = self.n_tmp, []
            try:
                g, ty = self.expr(recv, env, scratch)
            except TErr:
                g, ty = None, None
            special = None
            if ty == "char" and name == "width" and not args:
                self.callees["c_char_width"] = "N -> option nat"
                special = ("c_char_width %s" % atom(g), ("option", "nat"))
            elif ty == "pen" and name == "is_default" and not args:
                special = ("g_pen_is_default %s" % atom(g), "bool")          # Gen/DumpFns.v
            elif ty == "term" and name == "primary_buffer" and not args:
                special = ("g_term_primary_buffer %s" % atom(g), "buffer")   # Gen/DumpFns.v
            elif ty == "vt" and name in VT_ABSTRACT:
                self.n_tmp = n_tmp
                return self.vt_call(self.place(recv, env, pre), name, args, env, pre), "changes"
            if special is not None:
                if scratch:
                    if pre is None:
                        self.err("an operation that needs sequencing in the receiver of .%s" % name)
                    pre.extend(scratch)
                return special
            self.n_tmp = n_tmp
        val = super().mcall(e, env, pre, stmt)
        return val

    def method_on_value(self, g, ty, name, args, env, pre, stmt):
        if isinstance(ty, tuple) and ty[0] in ("list", "option", "repeat"):
            return self.iter_method(g, ty, name, args, env, pre)
        if ty == "buffer" and name == "text" or isinstance(ty, str) and ty in STRUCT_TY and ty not in ("limit", "changes"):
            if not g.replace("_", "").isalnum():
                t = self.fresh()
                self.put(pre, "let %s := %s in" % (t, g))
                g = t
            tmp = "#recv%d" % self.n_tmp                   # not a Rust identifier: cannot clash
            env2 = dict(env)
            env2[tmp] = Var(g, ty)
            val = self.mcall(("mcall", ("var", tmp), name, args), env2, pre, stmt)
            f = self.tr.fns.get((STRUCT_TY[ty], name))
            if f is not None and getattr(f, "chain", False):
                return env2[tmp].g, ty                     # `-> &mut Self`: the updated receiver
            return val
        self.err("unsupported method call .%s(..) on a value of type %s" % (name, ty))

    def iter_method(self, g, ty, name, args, env, pre):
        if name == "map" and len(args) == 1 and args[0][0] == "path" and len(args[0][1]) == 2 \
                and isinstance(ty, tuple) and ty[0] == "list":
            tname, fn = args[0][1]
            if tname not in FILE_OF:
                self.err("unsupported: .map(%s::%s)" % (tname, fn))
            f = self.tr.need(tname, fn)
            if f.selfk != "ref" or f.params or SELF_TY[tname] != ty[1] or getattr(f, "callees", None) or getattr(f, "fuels", None):
                self.err("unsupported: .map(%s::%s) over a list of %s" % (tname, fn, ty[1]))
            t = self.fresh()
            self.put(pre, "%s <- mapM %s %s ;;" % (t, f.gname, atom(g)))
            return t, ("list", f.ret)
        return super().iter_method(g, ty, name, args, env, pre)


# ------------------------------------------------------------------------------ driver

class ATr(R.RTr):
    def __init__(self, srcs):
        super().__init__(srcs)
        self.site = 300
        self.b_extern = {(t, f) for _, t, f in B.ROOTS}      # regenerated in Gen/BufFns.v
        self.r_extern = set(R.ROOTS)                         # regenerated in Gen/RestFns.v

    def parse_fn(self, toks, fs, bo, bc, tname):
        where = "%s::%s" % (tname, toks[fs + 1][1])
        p = AParser(toks[fs:bo], where + " signature")
        p.eat("fn")
        name = p.eat(kind="id")
        if p.at("<"):
            p.err("unsupported: generic function")
        p.eat("(")
        selfk, params = None, []
        if p.at("&"):
            p.eat()
            selfk = "ref"
            if p.at("mut"):
                p.eat()
                selfk = "mut"
            p.eat("self")
        elif p.at("self"):
            p.err("unsupported: by-value self")
        elif p.at("mut") and p.at("self", 1):
            p.err("unsupported: `mut self`")
        if selfk and not p.at(")"):
            p.eat(",")
        while not p.at(")"):
            pt = p.pat()
            p.eat(":")
            params.append((pt, p.ty(SELF_TY[tname])))
            if not p.at(")"):
                p.eat(",")
        p.eat(")")
        ret, chain = None, False
        if p.at("->"):
            p.eat()
            if selfk == "mut" and p.at("&") and p.at("mut", 1) and p.at("Self", 2):
                p.i += 3
                chain = True
            else:
                ret = p.ty(SELF_TY[tname])
        if p.i != len(p.t):
            p.err("unsupported signature tail")
        b = AParser(toks[bo:bc + 1], where)
        body = b.block()
        if b.i != len(b.t):
            b.err("trailing tokens after the body")
        if chain:                                           # fn f(&mut self, ..) -> &mut Self { stmts; self }
            stmts, tail = body
            if tail != ("self",) or B.has_return(stmts):
                raise TErr("%s: a function returning `&mut Self` must end in `self` and have no `return`" % where)
            body = (stmts, None)
        f = B.Fn(tname, name, selfk, params, ret, body)
        f.chain = chain
        return f

    def need(self, tname, name):
        key = (tname, name)
        if key in self.fns:
            return self.fns[key]
        if key in self.busy:
            raise TErr("recursion through %s::%s" % key)
        if tname not in FILE_OF:
            raise TErr("no source file for type %s" % tname)
        if key in self.r_extern and key not in R_CALLABLE:
            raise TErr("unsupported: call of %s::%s (regenerated in Gen/RestFns.v with fuel parameters / as a loop)" % key)
        toks = self.srcs[FILE_OF[tname]]
        try:
            lo, hi = find_impl(toks, IMPL_HDR.get(key, [tname]))
            fs, bo, bc = find_fn(toks, name, lo, hi)
            if not (lo < fs < hi):
                raise KeyError(name)
        except Exception as e:
            raise TErr("function %s::%s not found (%s)" % (tname, name, e))
        if key in self.b_extern or key in self.r_extern:      # only the signature is needed
            f = B.Tr.parse_fn(self, toks, fs, bo, bc, tname) if key in self.b_extern else R.RTr.parse_fn(self, toks, fs, bo, bc, tname)
            f.fuels, f.callees, f.chain = [], {}, False
            self.fns[key] = f
            return f
        f = self.parse_fn(toks, fs, bo, bc, tname)
        self.busy.append(key)
        self.site += 1
        ft = AFnTr(self, f, self.site)
        d = ft.emit()
        self.busy.pop()
        f.callees = dict(ft.callees)
        self.out.append((f.gname, "(** [%s::%s] (%s)%s *)\n%s" % (
            "Option<(usize, usize)>" if tname == "CursorOption" else tname, name, SOURCE_NAME[FILE_OF[tname]],
            ", impl " + " ".join(IMPL_HDR[key]).replace(" < ", "<").replace(" >", ">").replace("( ", "(").replace(" )", ")").replace(" ,", ",")
            if key in IMPL_HDR else "", d)))
        self.fns[key] = f
        return f


def derive_attr(toks, kind, name):
    """text of the attributes in front of `struct name` / `enum name`"""
    for i in range(len(toks) - 1):
        if toks[i] == ("id", kind) and toks[i + 1] == ("id", name):
            j = i
            while j > 0 and toks[j] != ("punct", "#") and toks[j] not in (("punct", "}"), ("punct", ";")):
                j -= 1
            return text(toks[j:i])
    raise TErr("%s %s not found" % (kind, name))


def check_sources(srcs):
    for sname, fkey in STRUCT_FILE.items():
        got = B.struct_decl(srcs[fkey], sname)
        want = [(f, t) for f, t, _, _ in STRUCTS[sname][1]]
        if got != want:
            raise TErr("struct %s: fields %s (expected %s)" % (sname, got, want))
    got = B.struct_decl(srcs["terminal"], "Terminal")
    if got != [(f, t) for f, t, _, _ in TERM_FIELDS]:
        raise TErr("struct Terminal: fields %s" % got)
    if B.struct_decl(srcs["cell"], "Cell") != "char , Pen":
        raise TErr("struct Cell is not Cell(char, Pen)")
    vtxt = text(srcs["vt"])
    if CHANGES_DECL not in vtxt:
        raise TErr("vt.rs: unexpected declaration of struct Changes")
    for name, (sig, _, _) in VT_ABSTRACT.items():
        if sig not in vtxt:
            raise TErr("vt.rs: unexpected signature of Vt::%s" % name)
    for ty, (ename, fkey, ctors, eqb) in ENUM_VALS.items():
        toks = srcs[fkey]
        for i in range(len(toks) - 2):
            if toks[i] == ("id", "enum") and toks[i + 1] == ("id", ename):
                got = text(toks[i + 3:B.match_close(toks, i + 2)])
                if got != " , ".join(ctors) + " ,":
                    raise TErr("enum %s: %s" % (ename, got))
                break
        else:
            raise TErr("enum %s not found" % ename)
        attr = derive_attr(toks, "enum", ename)
        if eqb and ("derive (" not in attr or " PartialEq " not in attr.replace(",", " , ").replace(")", " ) ")):
            raise TErr("enum %s no longer derives PartialEq" % ename)
    for sname, fkey in DERIVE_DEFAULT.items():
        attr = derive_attr(srcs[fkey], "struct", sname)
        if "derive (" not in attr or " Default " not in attr.replace(",", " , ").replace(")", " ) "):
            raise TErr("struct %s no longer derives Default" % sname)
        for toks in srcs.values():
            if ("impl Default for %s {" % sname) in text(toks):
                raise TErr("struct %s has a hand-written impl of Default" % sname)
    ptxt = text(srcs["parser"])
    if "pub enum State { # [ default ] Ground ," not in ptxt or " Default " not in derive_attr(srcs["parser"], "enum", "State").replace(",", " , ").replace(")", " ) "):
        raise TErr("enum State: `#[default] Ground` / derive(Default) not found")
    if "use unicode_width :: UnicodeWidthChar ;" not in text(srcs["cell"]):
        raise TErr("cell.rs: `use unicode_width::UnicodeWidthChar` not found (char::width is abstracted as that trait's method)")


PRELUDE = """From Coq Require Import List Arith NArith ZArith Bool.
From Avt Require Import Model.Vt Gen.BufFns Gen.RestFns Gen.DumpFns.
Import ListNotations.
Local Open Scope bool_scope.
Local Open Scope nat_scope.

(** Uses of the model: the records [pen], [cell], [line], [buffer], [saved_ctx], [term], [vt], [param], [parser] (Model/Types.v),
    [out] (Model/Vt.v: the value of [Changes], [scrollback] as the list of the drained lines), the panic monad and the list
    primitives (Model/Base.v), [blank_cell] / [default_pen] (bodies of [Cell::blank] / [Pen::default] checked by buf2coq),
    [PARAMS_LEN] (Gen/Consts.v); of the generated files: [g_buffer_new], [g_buffer_view], [g_line_len], [g_tabs_new],
    [g_dirty_new], [nthM], [unwrap_or] (Gen/BufFns.v), [g_buffer_text], [g_unwrapper_push], [mapM], [filter_mapM]
    (Gen/RestFns.v), [g_term_primary_buffer], [g_pen_is_default] (Gen/DumpFns.v).
    [struct Terminal]: [cursor] is the three fields [cur_col], [cur_row], [cur_vis]; [charsets] the two fields [cs0], [cs1];
    [scrollback_limit : Option<usize>] is kept as [option N]; [cursor_keys_mode] is the bool [ckm] (= Application).
    A [TextUnwrapper] is its only field, a [TextCollector] the pair (vt, unwrapper).  Parameters [c_..] are abstracted
    callees: [c_char_width] is [char::width] of the crate unicode_width, [c_vt_feed_str] / [c_vt_resize] are [Vt::feed_str] /
    [Vt::resize] (regenerated and tied in Gen/VtFns.v / Proofs/VtTie.v). *)

(** [struct Cursor] (terminal/cursor.rs) *)
Record cursor := mkCursor { cu_col : nat; cu_row : nat; cu_visible : bool }.

(** [struct Builder] (vt.rs) *)
Record builder := mkBuilder { b_size : nat * nat; b_scrollback_limit : option nat }.
#[export] Instance eta_builder : Settable _ := settable! mkBuilder <b_size; b_scrollback_limit>.

(** derived [PartialEq] of [enum BufferType] *)
Definition btype_eqb (a b : btype) : bool :=
  match a, b with Primary, Primary | Alternate, Alternate => true | _, _ => false end.

"""


def gen_accfns(srcs, hdr):
    """srcs: {'cell','line','buffer','parser','charset','cursor','terminal','vt','util','tabs','dirty','pen'} -> tokens;
    returns (text of AccFns.v, [gallina names])"""
    try:
        with patched():
            check_sources(srcs)
            tr = ATr(srcs)
            for tname, fn in ROOTS:
                tr.need(tname, fn)
    except (AttributeError, TypeError, AssertionError, RecursionError) as e:      # never a silent success
        raise TErr("internal error of acc2coq (%s: %s)" % (type(e).__name__, e))
    v = hdr + PRELUDE
    for _, d in tr.out:
        v += d.replace("§", "%") + "\n"
    return v, [n for n, _ in tr.out]
