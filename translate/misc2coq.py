"""misc2coq: three small pieces of the crate regenerated as Gallina (called from avt2coq.py).

  Gen/SgrFns.v  A. `SgrOps::next` (parser.rs): ONE iteration of the `while let Some(param) = self.ps.first()`
                   loop as `g_sgr_step (p : param) (rest : list param) : option sgr_op * nat` -- the op
                   returned (if the iteration returns) and the `k` of `self.ps = &self.ps[k..]`.
                   Match arms are tried in source order (first match wins): slice patterns become matches
                   on `g_pparts p`, literal sub-patterns `N.eqb` tests, guards boolean conditions; an arm
                   is an `option` (None: pattern or guard fails) and `g_first` picks the first `Some`.
                   `Param::parts` / `Param::as_u16` become `g_pparts` / `g_as_u16`.
                B. `Terminal::sgr` (terminal.rs) as `g_sgr_one (p : pen) (op : sgr_op) : pen` (the body of the
                   `for op in ops` loop) and `g_sgr` (the fold), with the `Pen` bit methods of pen.rs
                   (`g_set_italic`.., `g_unset_italic`.., `g_is_italic`.., `g_is_bold`, `g_is_faint`) and
                   `Pen::default` (`g_pen_default`).  u8: `a | b` = N.lor, `a & b` = N.land, `!m` = N.lxor 255 m.
  Gen/VtFns.v   C. call skeletons of `Vt::feed_str` / `Vt::feed` / `Vt::resize` (vt.rs), `Terminal::changes`
                   and the result selection of `Terminal::gc` (terminal.rs).

Integer semantics in A (all values are u16 in Rust, N in Coq): the translator keeps an interval for every
integer expression (slice-pattern variables narrowed by the arm's guard) and raises TErr if a `-` could
underflow or a `+` could exceed u16 -- so N.sub / N.add are exact.  `x as u8` is `x mod 256`.
`self.ps[k..]` and `self.ps.get(k).unwrap()` are only accepted where `k <=` / `k <` the number of
parameters known to exist at that point (from `first()` / enclosing `Some(..) = self.ps.get(j)`), so the
slice and the unwrap cannot panic and the default in `g_get_u16` is unreachable.

Anything else raises TErr naming the construct (TRANSLATE-ERROR, exit 2 in avt2coq.py).
"""
from rustlex import find_fn, find_impl, match_close, num_value, parse_match_arms, split_top, text
from term2coq import TErr

U16_MAX = 65535
SGR_CTORS = {"Reset": 0, "SetBoldIntensity": 0, "SetFaintIntensity": 0, "SetItalic": 0, "SetUnderline": 0,
             "SetBlink": 0, "SetInverse": 0, "SetStrikethrough": 0, "ResetIntensity": 0, "ResetItalic": 0,
             "ResetUnderline": 0, "ResetBlink": 0, "ResetInverse": 0, "ResetStrikethrough": 0,
             "SetForegroundColor": 1, "ResetForegroundColor": 0, "SetBackgroundColor": 1,
             "ResetBackgroundColor": 0}
MASKS = ["ITALIC_MASK", "UNDERLINE_MASK", "STRIKETHROUGH_MASK", "BLINK_MASK", "INVERSE_MASK"]
INTENSITIES = ["Normal", "Bold", "Faint"]


class Cur:
    """token cursor with the usual peek/at/eat"""

    def __init__(self, toks, where):
        self.t, self.i, self.where = toks, 0, where

    def err(self, what):
        raise TErr("%s: %s near: %s" % (self.where, what, text(self.t[max(0, self.i - 5):self.i + 8])))

    def peek(self, off=0):
        return self.t[self.i + off] if self.i + off < len(self.t) else (None, None)

    def at(self, *txts):
        return [t for _, t in self.t[self.i:self.i + len(txts)]] == list(txts)

    def eat(self, txt=None, kind=None):
        k, t = self.peek()
        if k is None or (txt is not None and t != txt) or (kind is not None and k != kind):
            self.err("expected %s, found %r" % (repr(txt) if txt else kind, t))
        self.i += 1
        return t

    def eats(self, *txts):
        for x in txts:
            self.eat(x)

    def done(self):
        return self.i >= len(self.t)

    def group(self):
        """self.t[self.i] opens a bracket: return the tokens inside and step past the closer"""
        c = match_close(self.t, self.i)
        inner = self.t[self.i + 1:c]
        self.i = c + 1
        return inner


def fn_body(toks, impl_header, name):
    lo, hi = find_impl(toks, impl_header)
    _, bo, bc = find_fn(toks, name, lo, hi)
    return toks[bo + 1:bc]


def ind(s, n):
    pad = " " * n
    return "\n".join(pad + l if l else l for l in s.split("\n"))


# ============================================================================ A. SgrOps::next

class SgrExpr(Cur):
    """expressions of SgrOps::next.  Values are (coq, type, lo, hi); env: name -> (coq, type, lo, hi);
    types: 'u16' 'u8' 'param' 'color' 'bool'."""

    def __init__(self, toks, env, minlen, where):
        Cur.__init__(self, toks, where)
        self.env, self.minlen = env, minlen

    # guards:  a && b, a || b, comparisons
    def cond(self):
        a = self.conj()
        while self.at("||"):
            self.eat()
            a = "(%s || %s)" % (a, self.conj())
        return a

    def conj(self):
        a = self.cmp()
        while self.at("&&"):
            self.eat()
            a = "(%s && %s)" % (a, self.cmp())
        return a

    def cmp(self):
        if self.at("("):
            # parenthesised condition or parenthesised integer: try the condition first
            save = self.i
            try:
                self.eat("(")
                c = self.cond()
                self.eat(")")
                if self.peek()[1] in ("&&", "||", None):
                    return c
            except TErr:
                pass
            self.i = save
        a = self.integer()
        k, op = self.peek()
        if k != "punct" or op not in ("==", "!=", "<", "<=", ">", ">="):
            self.err("expected a comparison operator, found %r" % op)
        self.eat()
        b = self.integer()
        fmt = {"==": "(%s =? %s)", "!=": "negb (%s =? %s)", "<": "(%s <? %s)", "<=": "(%s <=? %s)",
               ">": "(%s <? %s)", ">=": "(%s <=? %s)"}[op]
        return fmt % ((b[0], a[0]) if op in (">", ">=") else (a[0], b[0]))

    def integer(self):
        v = self.sum()
        if v[1] not in ("u16", "u8"):
            self.err("expected an integer expression, found type " + v[1])
        return v

    # integers:  a + b - c  (left assoc),  e as u8,  *x,  literals, variables, calls
    def sum(self):
        a = self.cast()
        while self.peek() in (("punct", "+"), ("punct", "-")):
            op = self.eat()
            b = self.cast()
            if a[1] != "u16" or b[1] != "u16":
                self.err("unsupported: `%s` at type %s/%s" % (op, a[1], b[1]))
            if op == "-":
                if a[2] < b[3]:
                    self.err("`%s - %s` may underflow (left >= %d, right <= %d)" % (a[0], b[0], a[2], b[3]))
                a = ("(%s - %s)" % (a[0], b[0]), "u16", a[2] - b[3], a[3] - b[2])
            else:
                if a[3] + b[3] > U16_MAX:
                    self.err("`%s + %s` may overflow u16" % (a[0], b[0]))
                a = ("(%s + %s)" % (a[0], b[0]), "u16", a[2] + b[2], a[3] + b[3])
        if self.peek() in (("punct", "*"), ("punct", "/"), ("punct", "%"), ("punct", "<<"), ("punct", ">>"),
                           ("punct", "&"), ("punct", "|"), ("punct", "^")):
            self.err("unsupported operator `%s`" % self.peek()[1])
        return a

    def cast(self):
        e = self.unary()
        while self.at("as"):
            self.eat()
            ty = self.eat(kind="id")
            if ty != "u8" or e[1] != "u16":
                self.err("unsupported cast from %s to %s" % (e[1], ty))
            e = ("(%s mod 256)" % e[0], "u8", 0, 255)
        return e

    def unary(self):
        if self.at("*"):
            self.eat()
            e = self.unary()
            if e[1] != "u16":
                self.err("unsupported: dereference of a value of type " + e[1])
            return e
        if self.at("-") or self.at("!") or self.at("&"):
            self.err("unsupported unary operator `%s`" % self.peek()[1])
        return self.postfix()

    def postfix(self):
        e = self.primary()
        while self.at("."):
            self.eat()
            name = self.eat(kind="id")
            if name == "as_u16" and e[1] == "param":
                self.eats("(", ")")
                e = ("(g_as_u16 %s)" % e[0], "u16", 0, U16_MAX)
            else:
                self.err("unsupported method `.%s` on a value of type %s" % (name, e[1]))
        return e

    def primary(self):
        k, t = self.peek()
        if k == "num":
            self.eat()
            if not t.isdigit():
                self.err("unsupported literal " + t)
            n = num_value(t)
            if n > U16_MAX:
                self.err("literal %d exceeds u16" % n)
            return (str(n), "u16", n, n)
        if k == "punct" and t == "(":
            self.eat()
            e = self.value()
            self.eat(")")
            return e
        if self.at("self", ".", "ps", ".", "get", "("):
            # only the form self.ps.get(K).unwrap().as_u16() with K < number of parameters known to exist
            self.i += 6
            kk = self.index_literal()
            self.eats(")", ".", "unwrap", "(", ")", ".", "as_u16", "(", ")")
            if kk >= self.minlen:
                self.err("self.ps.get(%d).unwrap() may panic (only %d parameters are known to exist here)"
                         % (kk, self.minlen))
            return ("(g_get_u16 ps %d)" % kk, "u16", 0, U16_MAX)
        if self.at("Color", "::", "Indexed", "("):
            self.i += 4
            a = self.value()
            self.eat(")")
            if a[1] != "u8":
                self.err("Color::Indexed expects a u8, found " + a[1])
            return ("(Indexed %s)" % a[0], "color", 0, 0)
        if self.at("Color", "::", "rgb", "("):
            self.i += 4
            cs = []
            for j in range(3):
                a = self.value()
                if a[1] != "u8":
                    self.err("Color::rgb expects u8 arguments, found " + a[1])
                cs.append(a[0])
                self.eat("," if j < 2 else ")")
            return ("(RGB %s)" % " ".join(cs), "color", 0, 0)
        if k == "id":
            if t not in self.env:
                self.err("unknown name `%s`" % t)
            self.eat()
            if self.at("(") or self.at("::") or self.at("!") or self.at("["):
                self.err("unsupported: `%s%s`" % (t, self.peek()[1]))
            return self.env[t]
        self.err("unsupported expression start %r" % t)

    def index_literal(self):
        t = self.eat(kind="num")
        if not t.isdigit():
            self.err("unsupported index literal " + t)
        return int(t)

    def value(self):
        return self.sum()

    def whole(self, what):
        v = what()
        if not self.done():
            self.err("trailing tokens")
        return v


def split_guard(pat):
    d = 0
    for i, (k, t) in enumerate(pat):
        if k == "punct" and t in "([{":
            d += 1
        elif k == "punct" and t in ")]}":
            d -= 1
        elif d == 0 and (k, t) == ("id", "if"):
            return pat[:i], pat[i + 1:]
    return pat, None


def slice_pattern(p, where):
    """`_` -> None;  `[a, 2, _]` -> [('var','a'), ('lit',2), ('any',)]"""
    if text(p) == "_":
        return None
    if not p or p[0] != ("punct", "[") or match_close(p, 0) != len(p) - 1:
        raise TErr("%s: unsupported pattern `%s`" % (where, text(p)))
    out = []
    for e in split_top(p[1:-1], ","):
        if len(e) != 1:
            raise TErr("%s: unsupported sub-pattern `%s` in `%s`" % (where, text(e), text(p)))
        k, t = e[0]
        if k == "num" and t.isdigit() and int(t) <= U16_MAX:
            out.append(("lit", int(t)))
        elif (k, t) == ("id", "_"):
            out.append(("any",))
        elif k == "id" and t[0].islower():
            out.append(("var", t))
        else:
            raise TErr("%s: unsupported sub-pattern `%s` in `%s`" % (where, t, text(p)))
    return out


def narrow(env, guard):
    """intervals of pattern variables from top-level conjuncts `*x >= N`, `*x <= N`, `<`, `>`, `==`"""
    if len(split_top(guard, "||")) > 1:
        return
    for c in split_top(guard, "&&"):
        c = [tk for tk in c if tk != ("punct", "*")]
        if len(c) == 3 and c[0][0] == "id" and c[0][1] in env and c[2][0] == "num" and c[2][1].isdigit():
            x, op, n = c[0][1], c[1][1], int(c[2][1])
            coq, ty, lo, hi = env[x]
            if ty != "u16":
                continue
            if op == ">=":
                lo = max(lo, n)
            elif op == ">":
                lo = max(lo, n + 1)
            elif op == "<=":
                hi = min(hi, n)
            elif op == "<":
                hi = min(hi, n - 1)
            elif op == "==":
                lo, hi = max(lo, n), min(hi, n)
            env[x] = (coq, ty, lo, hi)


class SgrNext:
    def __init__(self):
        self.where = "SgrOps::next"

    def chain(self, scrut, arms, env, minlen, depth):
        """arms: [(pattern tokens incl. guard, body tokens)] matched in order against the list `scrut`.
        Returns Coq text `g_first [arm; ..] default`: every arm but the last is an option (None: the
        pattern or the guard fails, try the next one); the last arm must be `_` and gives the default."""
        flat = []
        for pat, body in arms:
            pat, guard = split_guard(pat)
            for alt in split_top(pat, "|"):
                flat.append((alt, guard, body))
        if not flat:
            raise TErr("%s: empty match" % self.where)
        items, default = [], None
        for n, (alt, guard, body) in enumerate(flat):
            sp = slice_pattern(alt, self.where)
            last = n == len(flat) - 1
            if sp is None:
                if guard is not None:
                    raise TErr("%s: unsupported: guard on `_`" % self.where)
                if not last:
                    raise TErr("%s: arms after a `_` arm are unreachable" % self.where)
                default = self.block(body, dict(env), minlen, depth)
                continue
            if last:
                raise TErr("%s: the last arm `%s` is not `_`" % (self.where, text(alt)))
            aenv = dict(env)
            names, tests = [], []
            for j, e in enumerate(sp):
                if e[0] == "lit":
                    names.append("x%d" % j)
                    tests.append("(x%d =? %d)" % (j, e[1]))
                elif e[0] == "any":
                    names.append("_")
                else:
                    if e[1] in [x[1] for x in sp[:j] if x[0] == "var"]:
                        raise TErr("%s: variable bound twice in `%s`" % (self.where, text(alt)))
                    names.append("v_" + e[1])
                    aenv[e[1]] = ("v_" + e[1], "u16", 0, U16_MAX)
            if guard is not None:
                g = SgrExpr(guard, aenv, minlen, self.where + " guard")
                tests.append(g.whole(g.cond))
                narrow(aenv, guard)
            b = self.block(body, aenv, minlen, depth)
            cond = " && ".join(tests)
            lpat = "[%s]" % "; ".join(names) if names else "[]"
            src = text(alt) + (" if " + text(guard) if guard is not None else "")
            some = "Some " + b if "\n" not in b else "Some (\n%s)" % ind(b, 4)
            arm = "| %s => if %s then %s else None" % (lpat, cond, some) if cond else "| %s => %s" % (lpat, some)
            items.append("(* %s *)\nmatch %s with\n%s\n| _ => None\nend" % (src, scrut, arm))
        return "g_first [\n%s\n] (\n%s)" % (";\n".join(ind(it, 2) for it in items), ind(default, 2))

    def block(self, toks, env, minlen, depth):
        """a block of the loop body: Coq text of type option sgr_op * nat"""
        c = Cur(toks, self.where)
        lets, consumed = [], None

        def wrap(res):
            return "".join("let %s := %s in\n" % lv for lv in lets) + res

        while not c.done():
            if c.at("let"):
                c.eat()
                if c.at("mut"):
                    c.err("unsupported: `let mut`")
                name = c.eat(kind="id")
                c.eat("=")
                j = c.i
                while c.peek() != ("punct", ";"):
                    if c.peek()[1] in ("(", "[", "{"):
                        c.group()
                    else:
                        c.eat()
                e = SgrExpr(c.t[j:c.i], env, minlen, "%s: let %s" % (self.where, name))
                v = e.whole(e.value)
                c.eat(";")
                lets.append(("v_" + name, v[0]))
                env[name] = ("v_" + name,) + v[1:]
                continue
            if c.at("self", ".", "ps", "=", "&", "self", ".", "ps", "["):
                c.i += 9
                k = int(c.eat(kind="num")) if c.peek()[1].isdigit() else c.err("unsupported slice start")
                c.eats("..", "]", ";")
                if consumed is not None:
                    c.err("self.ps is advanced twice on one path")
                if k > minlen:
                    c.err("&self.ps[%d..] may panic (only %d parameters are known to exist here)" % (k, minlen))
                consumed = k
                continue
            if c.at("return"):
                c.eats("return", "Some", "(")
                c.i -= 1
                inner = c.group()
                c.eat(";")
                if not c.done():
                    c.err("statements after `return`")
                if consumed is None:
                    c.err("`return` before self.ps is advanced")
                return wrap("(Some %s, %d%%nat)" % (self.op(inner, env, minlen), consumed))
            if consumed is not None:
                c.err("unsupported: control flow after self.ps has been advanced")
            if c.at("if", "let", "Some", "("):
                c.i += 4
                x = c.eat(kind="id")
                c.eats(")", "=", "self", ".", "ps", ".", "get", "(")
                k = int(c.eat(kind="num"))
                c.eat(")")
                if not c.at("{"):
                    c.err("expected `{`")
                b1 = c.group()
                c.eat("else")
                if not c.at("{"):
                    c.err("unsupported: `else if`")
                b2 = c.group()
                if not c.done():
                    c.err("statements after `if let .. else ..`")
                env1 = dict(env)
                env1[x] = ("v_" + x, "param", 0, 0)
                r1 = self.block(b1, env1, max(minlen, k + 1), depth)
                r2 = self.block(b2, dict(env), minlen, depth)
                return wrap("match nth_error ps %d with\n| Some v_%s =>\n%s\n| None =>\n%s\nend"
                            % (k, x, ind(r1, 2), ind(r2, 2)))
            if c.at("match", "self", ".", "ps", ".", "get", "("):
                c.i += 7
                k = int(c.eat(kind="num"))
                c.eats(")", ".", "map", "(", "|")
                q = c.eat(kind="id")
                c.eats("|", q, ".", "parts", "(", ")", ")")
                if not c.at("{"):
                    c.err("expected `{`")
                arms = parse_match_arms(c.group())
                if not c.done():
                    c.err("statements after `match`")
                return wrap(self.opt_match(k, arms, env, minlen, depth))
            c.err("unsupported statement")
        if consumed is None:
            raise TErr("%s: a path through the loop body does not advance self.ps" % self.where)
        return wrap("(None, %d%%nat)" % consumed)

    def opt_match(self, k, arms, env, minlen, depth):
        """match self.ps.get(k).map(|p| p.parts()) { None => .., Some([..]) => .., Some(_) => .. }"""
        none_body, some_arms = None, []
        for pat, body, _ in arms:
            s = text(pat)
            if s == "None":
                if none_body is None:
                    none_body = body
            elif s == "_":
                if none_body is None:
                    none_body = body
                some_arms.append((pat, body))
            elif s.startswith("Some (") and match_close(pat, 1) == len(pat) - 1:
                some_arms.append((pat[2:-1], body))
            else:
                raise TErr("%s: unsupported pattern `%s` on self.ps.get(%d).map(..)" % (self.where, s, k))
        if none_body is None:
            raise TErr("%s: no arm for None on self.ps.get(%d).map(..)" % (self.where, k))
        q = "q%d" % depth
        r0 = self.block(none_body, dict(env), minlen, depth + 1)
        r1 = self.chain("g_pparts " + q, some_arms, env, max(minlen, k + 1), depth + 1)
        return ("match nth_error ps %d with\n| None =>\n%s\n| Some %s =>\n%s\nend" % (k, ind(r0, 2), q, ind(r1, 2)))

    def op(self, toks, env, minlen):
        c = Cur(toks, self.where)
        name = c.eat(kind="id")
        if name not in SGR_CTORS:
            c.err("unknown SgrOp `%s`" % name)
        if SGR_CTORS[name] == 0:
            if not c.done():
                c.err("unexpected argument for " + name)
            return name
        if not c.at("("):
            c.err("missing argument for " + name)
        e = SgrExpr(c.group(), env, minlen, self.where + ": " + name)
        v = e.whole(e.value)
        if v[1] != "color" or not c.done():
            c.err("%s expects a Color" % name)
        return "(%s %s)" % (name, v[0])


def gen_param_fns(ptoks):
    b = fn_body(ptoks, ["Param"], "as_u16")
    if len(b) != 6 or text(b[:4]) != "self . parts [" or b[4][0] != "num" or not b[4][1].isdigit() or b[5][1] != "]":
        raise TErr("Param::as_u16: unexpected body: " + text(b))
    k = int(b[4][1])
    if k >= 6:
        raise TErr("Param::as_u16: index %d is outside [u16; 6]" % k)
    v = ("(** [Param::as_u16]: [self.parts[%d]] (a fixed-size array; 0 where the model's list is shorter) *)\n"
         "Definition g_as_u16 (p : param) : N := %s.\n\n" % (k, "hd 0 (parts p)" if k == 0 else "nth %d (parts p) 0" % k))
    b = text(fn_body(ptoks, ["Param"], "parts"))
    if b == "& self . parts [ ..= self . cur_part ]":
        n = "(S (cur_part p))"
    elif b == "& self . parts [ .. self . cur_part ]":
        n = "(cur_part p)"
    else:
        raise TErr("Param::parts: unexpected body: " + b)
    v += "(** [Param::parts]: [%s] *)\n" % b.replace(" . ", ".").replace(" [ ", "[").replace(" ]", "]").replace("& ", "&")
    v += "Definition g_pparts (p : param) : list N := firstn %s (parts p).\n\n" % n
    return v


def gen_sgr_next(ptoks, ctoks):
    if text(fn_body(ctoks, ["Color"], "rgb")) != "Self :: RGB ( RGB8 :: new ( r , g , b ) )":
        raise TErr("Color::rgb: unexpected body")
    body = fn_body(ptoks, ["<", "'a", ">", "Iterator", "for", "SgrOps", "<", "'a", ">"], "next")
    c = Cur(body, "SgrOps::next")
    c.eats("use", "SgrOp", "::", "*", ";", "while", "let", "Some", "(")
    pv = c.eat(kind="id")
    c.eats(")", "=", "self", ".", "ps", ".", "first", "(", ")")
    if not c.at("{"):
        c.err("expected the loop body")
    loop = Cur(c.group(), "SgrOps::next loop body")
    c.eat("None")
    if not c.done():
        c.err("unexpected epilogue")
    loop.eats("match", pv, ".", "parts", "(", ")")
    if not loop.at("{"):
        loop.err("expected the match body")
    arms = parse_match_arms(loop.group())
    if not loop.done():
        loop.err("statements after the match")
    g = SgrNext()
    env = {pv: ("p", "param", 0, 0)}
    chain = g.chain("g_pparts p", [(p, b) for p, b, _ in arms], env, 1, 0)
    v = gen_param_fns(ptoks)
    v += ("(** [self.ps.get(k).unwrap().as_u16()]; the translator only emits it where [k] parameters are known\n"
          "    to exist, so the default is never used *)\n"
          "Definition g_get_u16 (ps : list param) (k : nat) : N :=\n"
          "  match nth_error ps k with Some q => g_as_u16 q | None => 0 end.\n\n")
    v += ("(** first match wins: the first arm that is not [None], else the default (the `_` arm) *)\n"
          "Fixpoint g_first {A} (arms : list (option A)) (default : A) : A :=\n"
          "  match arms with [] => default | Some a :: _ => a | None :: r => g_first r default end.\n\n")
    v += ("(** one iteration of the [while let Some(param) = self.ps.first()] loop of [SgrOps::next] on\n"
          "    [self.ps = p :: rest]: the op returned (None: the loop goes round again) and the [k] of\n"
          "    [self.ps = &self.ps[k..]].  The arms of [match param.parts()] in source order. *)\n")
    v += "Definition g_sgr_step (p : param) (rest : list param) : option sgr_op * nat :=\n"
    v += "  let ps := p :: rest in\n" + ind(chain, 2) + ".\n"
    return v, len(arms)


# ============================================================================ B. Terminal::sgr + Pen

PEN_FIELDS = ["foreground", "background", "intensity", "attrs"]


def mk_pen(**upd):
    return "mkPen " + " ".join(upd.get(f, "(%s p)" % f) for f in PEN_FIELDS)


def gen_pen_fns(pen):
    """the bit methods of impl Pen; returns (coq text, set of mutator names)"""
    lo, hi = find_impl(pen, ["Pen"])
    v, mutators, accessors = "", [], []
    i = lo
    while i < hi:
        if pen[i] == ("id", "fn"):
            name = pen[i + 1][1]
            _, bo, bc = find_fn(pen, name, i, hi)
            b = pen[bo + 1:bc]
            s = text(b)
            i = bc
            if name.startswith("set_") or name.startswith("unset_"):
                if len(b) == 6 and s.startswith("self . attrs |= ") and b[4][1] in MASKS and b[5][1] == ";":
                    e = "(N.lor (attrs p) %s)" % b[4][1]
                elif len(b) == 7 and s.startswith("self . attrs &= ! ") and b[5][1] in MASKS and b[6][1] == ";":
                    e = "(N.land (attrs p) (N.lxor 255 %s))" % b[5][1]
                else:
                    raise TErr("Pen::%s: unexpected body: %s" % (name, s))
                v += "Definition g_%s (p : pen) : pen := %s.\n" % (name, mk_pen(attrs=e))
                mutators.append(name)
            elif name.startswith("is_") and name != "is_default":
                if b and b[0] == ("punct", "(") and match_close(b, 0) == len(b) - 3:
                    b = b[1:-3] + b[-2:]
                s = text(b)
                if len(b) == 7 and s.startswith("self . attrs & ") and b[4][1] in MASKS and s.endswith("!= 0"):
                    e = "negb (N.land (attrs p) %s =? 0)" % b[4][1]
                elif len(b) == 7 and s.startswith("self . attrs & ") and b[4][1] in MASKS and s.endswith("== 0"):
                    e = "(N.land (attrs p) %s =? 0)" % b[4][1]
                elif len(b) == 7 and s.startswith("self . intensity == Intensity :: ") and b[6][1] in INTENSITIES:
                    e = "inten_eqb (intensity p) %s" % b[6][1]
                else:
                    raise TErr("Pen::%s: unexpected body: %s" % (name, s))
                v += "Definition g_%s (p : pen) : bool := %s.\n" % (name, e)
                accessors.append(name)
        i += 1
    # Pen::default
    b = fn_body(pen, ["Default", "for", "Pen"], "default")
    if text(b[:2]) != "Pen {" or match_close(b, 1) != len(b) - 1:
        raise TErr("Pen::default: expected a struct literal")
    fields = {}
    for f in split_top(b[2:-1], ","):
        if len(f) < 3 or f[1] != ("punct", ":") or f[0][1] in fields:
            raise TErr("Pen::default: unexpected field `%s`" % text(f))
        fields[f[0][1]] = pen_rhs(f[2:], {}, "Pen::default")
    if sorted(fields) != sorted(PEN_FIELDS):
        raise TErr("Pen::default: field set changed: %s" % sorted(fields))
    for f, ty in (("foreground", "ocolor"), ("background", "ocolor"), ("intensity", "inten"), ("attrs", "u8")):
        if fields[f][1] != ty:
            raise TErr("Pen::default: field %s has a value of type %s" % (f, fields[f][1]))
    v += "Definition g_pen_default : pen := mkPen %s.\n" % " ".join(fields[f][0] for f in PEN_FIELDS)
    return v, mutators, accessors


def pen_rhs(toks, env, where):
    s = text(toks)
    if s == "None":
        return ("None", "ocolor")
    if len(toks) == 4 and s.startswith("Some ( ") and toks[2][1] in env:
        return ("(Some %s)" % env[toks[2][1]], "ocolor")
    if len(toks) == 3 and s.startswith("Intensity :: ") and toks[2][1] in INTENSITIES:
        return (toks[2][1], "inten")
    if len(toks) == 1 and toks[0][0] == "num" and toks[0][1].isdigit() and int(toks[0][1]) < 256:
        return (toks[0][1], "u8")
    raise TErr("%s: unsupported right-hand side `%s`" % (where, s))


def gen_term_sgr(term, pen):
    v, mutators, accessors = gen_pen_fns(pen)
    body = fn_body(term, ["Terminal"], "sgr")
    c = Cur(body, "Terminal::sgr")
    c.eats("use", "SgrOp", "::", "*", ";", "for")
    ov = c.eat(kind="id")
    c.eats("in", "ops")
    if not c.at("{"):
        c.err("expected the loop body")
    loop = Cur(c.group(), "Terminal::sgr loop body")
    if not c.done():
        c.err("statements after the loop")
    loop.eats("match", ov)
    if not loop.at("{"):
        loop.err("expected the match body")
    arms = parse_match_arms(loop.group())
    if not loop.done():
        loop.err("statements after the match")
    out = []
    for pat, b, is_block in arms:
        where = "Terminal::sgr arm `%s`" % text(pat)
        env = {}
        if len(pat) == 1 and (pat[0][1] in SGR_CTORS and SGR_CTORS[pat[0][1]] == 0 or pat[0][1] == "_"):
            cp = pat[0][1]
        elif len(pat) == 4 and SGR_CTORS.get(pat[0][1]) == 1 and pat[1][1] == "(" and pat[2][0] == "id" \
                and pat[3][1] == ")":
            env[pat[2][1]] = "v_" + pat[2][1]
            cp = "%s %s" % (pat[0][1], "_" if pat[2][1] == "_" else env[pat[2][1]])
        else:
            raise TErr("Terminal::sgr: unsupported pattern `%s`" % text(pat))
        stmts = split_top(b, ";") if is_block else [b]
        steps = []
        for st in stmts:
            s = text(st)
            if s == "self . pen = Pen :: default ( )":
                steps.append("g_pen_default")
            elif len(st) == 7 and s.startswith("self . pen . ") and s.endswith("( )") and st[4][1] in mutators:
                steps.append("g_%s p" % st[4][1])
            elif len(st) > 6 and s.startswith("self . pen . ") and st[5] == ("punct", "="):
                f = st[4][1]
                e, ty = pen_rhs(st[6:], env, where)
                if (f, ty) not in (("foreground", "ocolor"), ("background", "ocolor"), ("intensity", "inten")):
                    raise TErr("%s: unsupported assignment `%s`" % (where, s))
                steps.append(mk_pen(**{f: e}))
            else:
                raise TErr("%s: unsupported statement `%s`" % (where, s))
        e = "p" if not steps else steps[-1]
        for st in reversed(steps[:-1]):
            e = "let p := %s in %s" % (st, e)
        out.append("  | %s => %s" % (cp, e))
    v += ("\n(** the body of the [for op in ops] loop of [Terminal::sgr], on [self.pen] *)\n"
          "Definition g_sgr_one (p : pen) (op : sgr_op) : pen :=\n  match op with\n" + "\n".join(out) + "\n  end.\n\n"
          "(** [Terminal::sgr] on [self.pen] *)\n"
          "Definition g_sgr (p : pen) (ops : list sgr_op) : pen := fold_left g_sgr_one ops p.\n")
    return v, len(out), len(mutators) + len(accessors)


def gen_sgrfns(ptoks, ctoks, term, pen, hdr):
    a, n_arms = gen_sgr_next(ptoks, ctoks)
    b, n_ops, n_pen = gen_term_sgr(term, pen)
    v = hdr + ("From Coq Require Import List NArith Bool.\nFrom Avt Require Import Model.Types Gen.Consts.\n"
               "Import ListNotations.\nLocal Open Scope N_scope.\nLocal Open Scope bool_scope.\n\n"
               "(** * A. parser.rs: Param::parts, Param::as_u16, SgrOps::next *)\n\n") + a
    v += "\n(** * B. pen.rs bit methods, Pen::default; terminal.rs Terminal::sgr *)\n\n" + b
    return v, {"sgr_next_arms": n_arms, "sgr_ops": n_ops, "pen_fns": n_pen}


# ============================================================================ C. vt.rs call skeletons

VT_STMTS = {
    "s . chars ( ) . filter_map ( | ch | self . parser . feed ( ch ) ) . for_each ( | op | self . terminal . execute ( op ) )":
        ["SEach"],
    "if let Some ( op ) = self . parser . feed ( input ) { self . terminal . execute ( op ) ; }":
        ["SParse", "SExecIfSome"],
    "self . terminal . resize ( cols , rows )": ["SResize"],
}
EACH = ["SParse", "SExecIfSome"]     # the per-char pipeline of the `filter_map(..).for_each(..)` form above
VT_SIGS = {"feed_str": "( & mut self , s : & str ) -> Changes", "feed": "( & mut self , input : char )",
           "resize": "( & mut self , cols : usize , rows : usize ) -> Changes"}
EMPTY_ITER = "Box :: new ( std :: iter :: empty ( ) )"


def vt_skeleton(vt, name):
    lo, hi = find_impl(vt, ["Vt"])
    fs, bo, bc = find_fn(vt, name, lo, hi)
    if text(vt[fs + 2:bo]) != VT_SIGS[name]:
        raise TErr("Vt::%s: signature changed: %s" % (name, text(vt[fs + 2:bo])))
    steps, bound = [], {}
    stmts = split_top(vt[bo + 1:bc], ";")
    ret = None
    if "Changes" in VT_SIGS[name]:
        ret, stmts = stmts[-1], stmts[:-1]
    for st in stmts:
        s = text(st)
        if s in VT_STMTS:
            steps += VT_STMTS[s]
        elif len(st) == 10 and s.startswith("let ") and text(st[2:]) in ("= self . terminal . changes ( )",
                                                                         "= self . terminal . gc ( )"):
            call = st[7][1]
            if call in bound.values():
                raise TErr("Vt::%s: %s() is called twice" % (name, call))
            bound[st[1][1]] = call
            steps.append("SChanges" if call == "changes" else "SGc")
        else:
            raise TErr("Vt::%s: unsupported statement `%s`" % (name, s))
    if ret is not None:
        # Changes { lines, scrollback }: `lines` must hold changes(), `scrollback` must hold gc()
        if text(ret[:2]) != "Changes {" or match_close(ret, 1) != len(ret) - 1:
            raise TErr("Vt::%s: unexpected result `%s`" % (name, text(ret)))
        got = {}
        for f in split_top(ret[2:-1], ","):
            if len(f) == 1:
                got[f[0][1]] = f[0][1]
            elif len(f) == 3 and f[1] == ("punct", ":"):
                got[f[0][1]] = f[2][1]
            else:
                raise TErr("Vt::%s: unexpected field `%s`" % (name, text(f)))
        if sorted(got) != ["lines", "scrollback"] or bound.get(got["lines"]) != "changes" \
                or bound.get(got["scrollback"]) != "gc":
            raise TErr("Vt::%s: the result is not Changes { lines: changes(), scrollback: gc() }" % name)
    return steps


def gen_gc_select(term):
    """Terminal::gc after `let lines = self.buffer.gc();`: which lines are handed back"""
    c = Cur(fn_body(term, ["Terminal"], "gc"), "Terminal::gc")
    c.eats("let", "lines", "=", "self", ".", "buffer", ".", "gc", "(", ")", ";")

    def result(toks):
        s = text(toks)
        if s == EMPTY_ITER:
            return "[]"
        if s == "match lines { Some ( iter ) => Box :: new ( iter ) , None => %s , }" % EMPTY_ITER:
            return "match lines with Some iter => iter | None => [] end"
        raise TErr("Terminal::gc: unsupported result `%s`" % s)

    conds = []
    while c.at("if"):
        c.eats("if", "self", ".", "active_buffer_type")
        op = c.eat(kind="punct")
        c.eats("BufferType", "::")
        bt = c.eat(kind="id")
        if op not in ("==", "!=") or bt not in ("Primary", "Alternate") or not c.at("{"):
            c.err("unsupported condition")
        blk = c.group()
        if text(blk[:1]) != "return" or blk[-1] != ("punct", ";"):
            c.err("unsupported: conditional block that is not `return ..;`")
        conds.append((op, bt, result(blk[1:-1])))
    e = result(c.t[c.i:])
    for op, bt, r in reversed(conds):
        e = ("match a with %s => %s | _ => %s end" % (bt, r, e) if op == "=="
             else "match a with %s => %s | _ => %s end" % (bt, e, r))
    return e


def gen_vtfns(vt, term, hdr):
    v = hdr + "From Coq Require Import List.\nFrom Avt Require Import Model.Types.\nImport ListNotations.\n\n"
    v += ("(** the calls made by the public mutating methods of [Vt], in order.\n"
          "    [SEach]: for every char of the argument, the per-char pipeline [g_feed_str_each];\n"
          "    [SParse]: [self.parser.feed(c)]; [SExecIfSome]: [self.terminal.execute(op)] if that returned [Some(op)];\n"
          "    [SResize]: [self.terminal.resize(cols, rows)]; [SChanges]: [lines = self.terminal.changes()];\n"
          "    [SGc]: [scrollback = self.terminal.gc()] *)\n"
          "Inductive vstep := SEach | SParse | SExecIfSome | SResize | SChanges | SGc.\n\n")
    sk = {n: vt_skeleton(vt, n) for n in ("feed_str", "feed", "resize")}
    v += "Definition g_feed_str_each : list vstep := [%s].\n" % "; ".join(EACH)
    for n in ("feed_str", "feed", "resize"):
        v += "Definition g_%s_skel : list vstep := [%s].\n" % (n, "; ".join(sk[n]))
    # Terminal::changes
    b = text(fn_body(term, ["Terminal"], "changes"))
    forms = {
        "let changes = self . dirty_lines . to_vec ( ) ; self . dirty_lines . clear ( ) ; changes": ["CToVec", "CClear"],
        "self . dirty_lines . clear ( ) ; let changes = self . dirty_lines . to_vec ( ) ; changes": ["CClear", "CToVec"],
        "let changes = self . dirty_lines . to_vec ( ) ; changes": ["CToVec"],
    }
    if b not in forms:
        raise TErr("Terminal::changes: unexpected body: " + b)
    v += ("\n(** [Terminal::changes]: [CToVec]: [result = self.dirty_lines.to_vec()]; [CClear]: [self.dirty_lines.clear()] *)\n"
          "Inductive cstep := CToVec | CClear.\n"
          "Definition g_changes_skel : list cstep := [%s].\n" % "; ".join(forms[b]))
    v += ("\n(** [Terminal::gc] after [let lines = self.buffer.gc()]: the lines handed to the caller *)\n"
          "Definition g_gc_select (a : btype) (lines : option (list line)) : list line :=\n  %s.\n"
          % gen_gc_select(term))
    return v, {"vt_skels": 3}
