"""buf2coq: the SLICE-LEVEL primitives of src/line.rs, src/buffer.rs, src/tabs.rs and
src/terminal/dirty_lines.rs as Gallina (Gen/BufFns.v), one definition `g_<type>_<fn>` per Rust function.

The method bodies are parsed (tokens from rustlex) into a small AST and re-emitted in the panic monad
`res` of Model/Base.v, over the model's records (`line`, `buffer`) and lists, with the SAME list
primitives the hand-written model uses.  Semantics of the emitted code:

  * `usize` is `nat`; `a - b` emits `guard (b <=? a)` (Rust: panic in debug builds); `/`, `%` by a
    non-literal emit `guard (negb (b =? 0))`; `+`, `*` are not checked for overflow;
  * every slice / Vec operation emits the guard of its Rust panic condition and then a total body:
      v[i] = x            guard (i <? len)             upd i (fun _ => x) v
      v[a..b].fill(x)     guard (a <=? b), (b <=? len) fill_range a b x v          (v[a..] : b = len)
      v[a..b].rotate_left(n) / rotate_right(n)   + guard (n <=? b - a)   on_range a b (rotl n / rotr n) v
      v.insert(i, x)      guard (i <=? len)            insert_n i 1 x v
      for _ in a..b { v.insert(i, x.clone()) }   guard ((b - a =? 0) || (i <=? len))   insert_n i (b - a) x v
      v.remove(i)         guard (i <? len)             firstn i v ++ skipn (S i) v
      v.truncate(n) firstn n v;  v.extend(it) v ++ it;  v.push(x) v ++ [x];  v.clear() [];
      v.resize(n, x) firstn n v ++ repeat x (n - len);  v.reserve(n) no effect
      v.drain(..n)        guard (n <=? len)            value firstn n v, v := skipn n v
      v.split_off(n)      guard (n <=? len)            value skipn n v,  v := firstn n v
      for t in it { v.push(t) }                        v ++ it
    a function returning `&mut v[s..]` (Buffer::view_mut) is a place: indexing it with `r` is
    `v[s + r]` after `guard (r <? len - s)`, a sub-range `[a..b]` of it acts on `skipn s v`;
    `impl Index/IndexMut for Buffer/Line` are inlined the same way (read from the source);
  * iterators are lists: iter() id, rev() rev, take_while / skip_while / filter_map / enumerate,
    count() length, nth(k) nth_error, take(n) firstn, repeat(x).take(n) repeat x n,
    (a..b).step_by(k) range_step a b k, all(p) forallb p;
  * `binary_search` and `partition_point` are translated by their CONTRACT on sorted / partitioned
    input (`bsearch`, `partition_point` in the prelude of BufFns.v): the index of the first element
    that is not less than the key / that fails the predicate.  On other inputs the Rust result is
    unspecified (but does not panic), so the tie says nothing there;
  * `let x = &mut place;` loads the place into a local and stores it back after the last use of `x`;
  * `fn f(&mut self, ..)` -> `res Self`, `fn f(&mut self, ..) -> T` -> `res (Self * T)`, otherwise `res T`;
    all guards of function number k carry the site 100+k (the tie is stated up to the site).

Anything outside this fragment raises TErr naming the construct (the caller prints TRANSLATE-ERROR
and exits 2).  Nothing is skipped silently.
"""
from rustlex import find_fn, find_impl, match_close, num_value, text


class TErr(Exception):
    pass


# ------------------------------------------------------------------------------ what is translated

# (file key, impl type, fn) in emission order; callees are pulled in on demand before their callers
ROOTS = [
    ("line", "Line", "blank"), ("line", "Line", "len"), ("line", "Line", "clear"), ("line", "Line", "print"),
    ("line", "Line", "insert"), ("line", "Line", "delete"), ("line", "Line", "expand"),
    ("line", "Line", "trailers"), ("line", "Line", "trim"), ("line", "Line", "is_blank"),
    ("line", "Line", "contract"), ("line", "Line", "extend"),
    ("buffer", "Buffer", "new"), ("buffer", "Buffer", "view"), ("buffer", "Buffer", "clear"),
    ("buffer", "Buffer", "extend"), ("buffer", "Buffer", "print"), ("buffer", "Buffer", "wrap"),
    ("buffer", "Buffer", "insert"), ("buffer", "Buffer", "delete"), ("buffer", "Buffer", "erase"),
    ("buffer", "Buffer", "scroll_up"), ("buffer", "Buffer", "scroll_down"),
    ("buffer", "Buffer", "trim_scrollback"), ("buffer", "Buffer", "gc"),
    ("tabs", "Tabs", "new"), ("tabs", "Tabs", "set"), ("tabs", "Tabs", "unset"), ("tabs", "Tabs", "expand"),
    ("tabs", "Tabs", "contract"), ("tabs", "Tabs", "clear"), ("tabs", "Tabs", "before"), ("tabs", "Tabs", "after"),
    ("dirty", "DirtyLines", "new"), ("dirty", "DirtyLines", "add"), ("dirty", "DirtyLines", "extend"),
    ("dirty", "DirtyLines", "resize"), ("dirty", "DirtyLines", "clear"), ("dirty", "DirtyLines", "to_vec"),
]
FILE_OF = {"Line": "line", "Buffer": "buffer", "Tabs": "tabs", "DirtyLines": "dirty"}
PREFIX = {"Line": "line", "Buffer": "buffer", "Tabs": "tabs", "DirtyLines": "dirty"}
# model type of `Self`
SELF_TY = {"Line": "line", "Buffer": "buffer", "Tabs": ("list", "nat"), "DirtyLines": ("list", "bool")}
# struct name -> (constructor, [(rust field, rust type text, projection, model type)])
STRUCTS = {
    "Line": ("mkLine", [("cells", "Vec < Cell >", "cells", ("list", "cell")), ("wrapped", "bool", "wrapped", "bool")]),
    "Buffer": ("mkBuffer", [("lines", "Vec < Line >", "lines", ("list", "line")), ("cols", "usize", "bcols", "nat"),
                            ("rows", "usize", "brows", "nat"),
                            ("scrollback_limit", "Option < ScrollbackLimit >", "blimit", ("option", "limit")),
                            ("trim_needed", "bool", "trim_needed", "bool")]),
    # the model keeps the two limits as a pair of N
    "ScrollbackLimit": (None, [("soft", "usize", "fst", "nat"), ("hard", "usize", "snd", "nat")]),
}
TUPLE_STRUCTS = {"Tabs": "Vec < usize >", "DirtyLines": "Vec < bool >"}
STRUCT_TY = {"line": "Line", "buffer": "Buffer", "limit": "ScrollbackLimit"}
ERASE_MODES = [("NextChars", ["usize"]), ("FromCursorToEndOfView", []), ("FromStartOfViewToCursor", []),
               ("WholeView", []), ("FromCursorToEndOfLine", []), ("FromStartOfLineToCursor", []), ("WholeLine", [])]
# functions of other files used as primitives: (path) -> (gallina, [arg types], result type, source check)
EXTERN_CHECKS = [
    ("cell", "Cell", "blank", "Cell ( ' ' , pen )"),
    ("cell", "Cell", "is_default", "self . 0 == ' ' && self . 1 . is_default ( )"),
    ("pen", "Default for Pen", "default",
     "Pen { foreground : None , background : None , intensity : Intensity :: Normal , attrs : 0 , }"),
]

BINOPS = [("||",), ("&&",), ("==", "!=", "<", "<=", ">", ">="), ("+", "-"), ("*", "/", "%")]


def cty(t):
    if isinstance(t, str):
        return {"limit": "(N * N)"}.get(t, t)
    if t[0] == "list":
        return "list %s" % cty_a(t[1])
    if t[0] == "option":
        return "option %s" % cty_a(t[1])
    if t[0] == "tuple":
        return "(%s)" % " * ".join(cty_a(x) for x in t[1])
    raise TErr("no Coq type for %r" % (t,))


def cty_a(t):
    s = cty(t)
    return "(%s)" % s if " " in s and not s.startswith("(") else s


# ------------------------------------------------------------------------------ parser

class Parser:
    """Recursive descent over rustlex tokens.  AST nodes are tuples:
       expressions  ('num', n) ('bool', b) ('var', x) ('self',) ('field', e, name) ('index', e, e) ('not', e)
                    ('deref', e) ('ref', e, is_mut) ('bin', op, a, b) ('range', a|None, b|None) ('paren', e)
                    ('mcall', recv, name, args) ('call', [path], args) ('path', [path]) ('vec', elem|None, count|None)
                    ('struct', name, [(field, e)]) ('tuple', [e]) ('closure', [pat], e)
                    ('if', cond, block, block|None) ('iflet', pat, e, block, block|None) ('match', e, [(pat, block)])
       patterns     ('pvar', x) ('pwild',) ('ptuple', [p]) ('pctor', name, [p])
       statements   ('let', pat, e) ('assign', lhs, op, e) ('expr', e) ('return', e|None) ('for', pat, e, block)
       block        (stmts, tail_expr|None)"""

    def __init__(self, toks, where):
        self.t, self.i, self.where = toks, 0, where

    def err(self, what):
        raise TErr("%s: %s near: %s" % (self.where, what, text(self.t[max(0, self.i - 5):self.i + 8])))

    def peek(self, off=0):
        return self.t[self.i + off] if self.i + off < len(self.t) else (None, None)

    def at(self, txt, off=0):
        k, t = self.peek(off)
        return t == txt and k in ("punct", "id")

    def eat(self, txt=None, kind=None):
        k, t = self.peek()
        if k is None or (txt is not None and t != txt) or (kind is not None and k != kind):
            self.err("expected %s, found %r" % (repr(txt) if txt else kind, t))
        self.i += 1
        return t

    # -- types
    def ty(self, self_ty):
        if self.at("&"):
            self.eat()
            if self.peek()[0] == "life":
                self.eat()
            if self.at("mut"):
                self.eat()
            return self.ty(self_ty)
        if self.at("("):
            self.eat()
            ts = []
            while not self.at(")"):
                ts.append(self.ty(self_ty))
                if not self.at(")"):
                    self.eat(",")
            self.eat(")")
            return ("tuple", ts)
        if self.at("["):
            self.eat()
            t = self.ty(self_ty)
            self.eat("]")
            return ("list", t)
        if self.at("impl"):
            self.eat()
            for x in ("Iterator", "<", "Item", "="):
                self.eat(x)
            t = self.ty(self_ty)
            self.eat(">")
            if self.at("+"):
                self.eat()
                self.eat(kind="life")
            return ("list", t)
        name = self.eat(kind="id")
        simple = {"usize": "nat", "bool": "bool", "Cell": "cell", "Pen": "pen", "Line": "line", "EraseMode": "erase_mode",
                  "VisualPosition": ("tuple", ["nat", "nat"])}
        if name == "Self":
            return self_ty
        if name in simple:
            return simple[name]
        if name in ("Option", "Vec", "Range"):
            self.eat("<")
            t = self.ty(self_ty)
            self.eat(">")
            if name == "Range":
                if t != "nat":
                    self.err("unsupported: Range of " + str(t))
                return "range"
            return ("option" if name == "Option" else "list", t)
        self.err("unsupported type " + name)

    # -- patterns
    def pat(self):
        if self.at("&"):
            self.eat()
            return self.pat()
        if self.at("mut"):
            self.eat()
        if self.at("("):
            self.eat()
            ps = []
            while not self.at(")"):
                ps.append(self.pat())
                if not self.at(")"):
                    self.eat(",")
            self.eat(")")
            return ("ptuple", ps)
        name = self.eat(kind="id")
        if name == "_":
            return ("pwild",)
        if self.at("::"):
            self.err("unsupported: path pattern")
        if self.at("("):
            self.eat()
            ps = []
            while not self.at(")"):
                ps.append(self.pat())
                if not self.at(")"):
                    self.eat(",")
            self.eat(")")
            return ("pctor", name, ps)
        if name[0].isupper():
            return ("pctor", name, [])
        return ("pvar", name)

    # -- blocks and statements
    def block(self):
        self.eat("{")
        stmts, tail = [], None
        while not self.at("}"):
            if tail is not None:
                self.err("expression without `;` in the middle of a block")
            if self.at("use"):
                self.eat()
                name = self.eat(kind="id")
                if not (name == "EraseMode" and self.at("::") and self.at("*", 1) and self.at(";", 2)):
                    self.err("unsupported `use`")
                self.i += 3
                continue
            if self.at("let"):
                self.eat()
                p = self.pat()
                if self.at(":"):
                    self.err("unsupported: type annotation on let")
                self.eat("=")
                e = self.expr()
                self.eat(";")
                stmts.append(("let", p, e))
                continue
            if self.at("return"):
                self.eat()
                e = None if self.at(";") else self.expr()
                self.eat(";")
                stmts.append(("return", e))
                continue
            if self.at("for"):
                self.eat()
                p = self.pat()
                self.eat("in")
                e = self.expr(no_struct=True)
                stmts.append(("for", p, e, self.block()))
                continue
            if self.peek()[0] == "id" and self.peek()[1] in ("while", "loop", "break", "continue", "unsafe", "fn",
                                                             "const", "static"):
                self.err("unsupported statement `%s`" % self.peek()[1])
            e = self.expr()
            k, t = self.peek()
            if t in ("=", "+=", "-=") and k == "punct":
                self.eat()
                rhs = self.expr()
                self.eat(";")
                stmts.append(("assign", e, t, rhs))
            elif t == ";":
                self.eat()
                stmts.append(("expr", e))
            elif e[0] in ("if", "iflet", "match") and not self.at("}"):
                stmts.append(("expr", e))
            elif self.at("}"):
                tail = e
            else:
                self.err("unsupported statement form (after an expression: %r)" % t)
        self.eat("}")
        return (stmts, tail)

    # -- expressions
    def expr(self, no_struct=False):
        old, self.no_struct = getattr(self, "no_struct", False), no_struct
        try:
            if self.at(".."):
                self.eat()
                if self.at("]") or self.at(")"):
                    return ("range", None, None)
                return ("range", None, self.binary(0))
            a = self.binary(0)
            if self.at(".."):
                self.eat()
                if self.at("]") or self.at(")"):
                    return ("range", a, None)
                return ("range", a, self.binary(0))
            if self.at("..="):
                self.err("unsupported operator `..=`")
            return a
        finally:
            self.no_struct = old

    def binary(self, lvl):
        if lvl == len(BINOPS):
            return self.unary()
        a = self.binary(lvl + 1)
        while self.peek()[0] == "punct" and self.peek()[1] in BINOPS[lvl]:
            op = self.eat()
            b = self.binary(lvl + 1)
            a = ("bin", op, a, b)
            if lvl == 2 and self.peek()[1] in BINOPS[2] and self.peek()[0] == "punct":
                self.err("chained comparison")
        if self.at("as"):
            self.err("unsupported: `as` cast")
        return a

    def unary(self):
        if self.at("-"):
            self.err("unsupported: unary minus")
        if self.at("!"):
            self.eat()
            return ("not", self.unary())
        if self.at("&"):
            self.eat()
            m = self.at("mut")
            if m:
                self.eat()
            return ("ref", self.unary(), m)
        if self.at("&&"):
            self.err("unsupported: `&&` reference")
        if self.at("*"):
            self.eat()
            return ("deref", self.unary())
        return self.postfix()

    def args(self):
        self.eat("(")
        out = []
        while not self.at(")"):
            out.append(self.expr())
            if not self.at(")"):
                self.eat(",")
        self.eat(")")
        return out

    def postfix(self):
        e = self.primary()
        while True:
            if self.at("."):
                self.eat()
                k, name = self.peek()
                if k not in ("id", "num"):
                    self.err("unsupported: `.%s`" % name)
                self.eat()
                if self.at("::"):
                    self.err("unsupported: turbofish")
                if self.at("(") and k == "id":
                    e = ("mcall", e, name, self.args())
                else:
                    e = ("field", e, name)
            elif self.at("["):
                self.eat()
                ix = self.expr()
                self.eat("]")
                e = ("index", e, ix)
            elif self.at("?"):
                self.err("unsupported operator `?`")
            else:
                return e

    def primary(self):
        k, t = self.peek()
        if k == "num":
            self.eat()
            if not t.isdigit():
                self.err("unsupported numeric literal " + t)
            return ("num", num_value(t))
        if k == "punct" and t == "(":
            self.eat()
            old, self.no_struct = self.no_struct, False
            es = []
            trailing = False
            while not self.at(")"):
                es.append(self.expr())
                trailing = False
                if not self.at(")"):
                    self.eat(",")
                    trailing = True
            self.eat(")")
            self.no_struct = old
            if len(es) == 1 and not trailing:
                return ("paren", es[0])
            return ("tuple", es)
        if k == "punct" and t == "|":
            self.eat()
            ps = []
            while not self.at("|"):
                ps.append(self.pat())
                if self.at(":"):
                    self.err("unsupported: closure parameter type")
                if not self.at("|"):
                    self.eat(",")
            self.eat("|")
            if self.at("{"):
                self.err("unsupported: closure with a block body")
            return ("closure", ps, self.expr())
        if k == "id":
            if t in ("true", "false"):
                self.eat()
                return ("bool", t == "true")
            if t == "self":
                self.eat()
                return ("self",)
            if t == "if":
                self.eat()
                if self.at("let"):
                    self.eat()
                    p = self.pat()
                    self.eat("=")
                    e = self.expr(no_struct=True)
                    b1 = self.block()
                    b2 = None
                    if self.at("else"):
                        self.eat()
                        if self.at("if"):
                            self.err("unsupported: `else if` after `if let`")
                        b2 = self.block()
                    return ("iflet", p, e, b1, b2)
                c = self.expr(no_struct=True)
                b1 = self.block()
                b2 = None
                if self.at("else"):
                    self.eat()
                    if self.at("if"):
                        b2 = ([], self.primary())
                    else:
                        b2 = self.block()
                return ("if", c, b1, b2)
            if t == "match":
                self.eat()
                scrut = self.expr(no_struct=True)
                self.eat("{")
                arms = []
                while not self.at("}"):
                    p = self.pat()
                    if self.at("if") or self.at("|"):
                        self.err("unsupported: match guard / or-pattern")
                    self.eat("=>")
                    if self.at("{"):
                        body = self.block()
                        if self.at(","):
                            self.eat()
                    else:
                        body = ([], self.expr())
                        if not self.at("}"):
                            self.eat(",")
                    arms.append((p, body))
                self.eat("}")
                return ("match", scrut, arms)
            if t in ("let", "mut", "return", "for", "while", "loop", "move", "unsafe", "as", "else", "fn", "in"):
                self.err("unexpected keyword `%s`" % t)
            self.eat()
            path = [t]
            while self.at("::"):
                self.eat()
                if self.at("<"):
                    self.err("unsupported: turbofish")
                path.append(self.eat(kind="id"))
            if self.at("!"):
                if path != ["vec"] or not self.at("[", 1):
                    self.err("unsupported: macro call %s!" % "::".join(path))
                self.i += 2
                if self.at("]"):
                    self.eat()
                    return ("vec", None, None)
                x = self.expr()
                self.eat(";")
                n = self.expr()
                self.eat("]")
                return ("vec", x, n)
            if self.at("("):
                return ("call", path, self.args())
            if self.at("{") and len(path) == 1 and t[0].isupper() and not self.no_struct:
                self.eat()
                fs = []
                while not self.at("}"):
                    f = self.eat(kind="id")
                    if self.at(":"):
                        self.eat()
                        fs.append((f, self.expr()))
                    else:
                        fs.append((f, ("var", f)))
                    if self.at(".."):
                        self.err("unsupported: struct update syntax")
                    if not self.at("}"):
                        self.eat(",")
                self.eat("}")
                return ("struct", t, fs)
            if len(path) == 1 and not t[0].isupper():
                return ("var", t)
            return ("path", path)
        self.err("unsupported expression start %r" % t)


def mentions(node, x):
    """does the AST node mention the variable x (syntactically)?"""
    if isinstance(node, tuple):
        if node[:1] == ("var",) and len(node) == 2:
            return node[1] == x
        if node == ("self",):
            return x == "self"
        return any(mentions(c, x) for c in node)
    if isinstance(node, list):
        return any(mentions(c, x) for c in node)
    return False


def pat_vars(p):
    if p[0] == "pvar":
        return [p[1]]
    if p[0] in ("ptuple", "pctor"):
        return [x for q in p[-1] for x in pat_vars(q)]
    return []


def has_return(node):
    if isinstance(node, tuple):
        if node[:1] == ("return",):
            return True
        if node[:1] == ("closure",):
            return False
        return any(has_return(c) for c in node)
    if isinstance(node, list):
        return any(has_return(c) for c in node)
    return False


# ------------------------------------------------------------------------------ places

class Lens:
    """A (possibly mutable) place.
       kind 'var'   : the local variable `name` (Gallina name g)
       kind 'field' : projection `a` of the record place `par`
       kind 'ro'    : a read-only pure value `g` (fields of ScrollbackLimit)
       kind 'elem'  : element `a` of the list place `par` (loading binds it with nthM)
       kind 'tail'  : par[a..]          kind 'slice' : par[a..b]"""

    def __init__(self, kind, ty, par=None, a=None, b=None, name=None, g=None):
        self.kind, self.ty, self.par, self.a, self.b, self.name, self.g = kind, ty, par, a, b, name, g
        self.loaded = None

    def root(self):
        return self.name if self.kind == "var" else self.par.root() if self.par is not None else None


class Var:
    """a local: Gallina name g (a pair for ranges), type; `alias`: it is a `&mut` borrow of that place, stored back
       after the statement `last`; `place`: it stands for that place (receiver of an inlined place function)"""

    def __init__(self, g, ty, alias=None, last=None, place=None):
        self.g, self.ty, self.alias, self.last, self.place = g, ty, alias, last, place
        self.outer = False


class Fn:
    def __init__(self, tname, name, selfk, params, ret, body):
        self.tname, self.name, self.selfk, self.params, self.ret, self.body = tname, name, selfk, params, ret, body
        self.gname = "g_%s_%s" % (PREFIX[tname], name)


PURE_LIST_METHODS = ("len", "is_empty", "iter", "binary_search", "partition_point", "clone")
ITER_METHODS = ("rev", "take_while", "skip_while", "count", "nth", "copied", "enumerate", "filter_map", "collect",
                "take", "all", "step_by", "iter")


def atom(g):
    return g if (" " not in g or (g.startswith("(") and g.endswith(")") and balanced(g[1:-1]))) else "(%s)" % g


def balanced(s):
    d = 0
    for c in s:
        d += c == "("
        d -= c == ")"
        if d < 0:
            return False
    return d == 0


class Tr:
    """translator for one source set"""

    def __init__(self, srcs):
        self.srcs = srcs                  # file key -> tokens
        self.fns = {}                     # (type, name) -> Fn
        self.out = []                     # (gname, definition)
        self.busy = []
        self.site = 100

    # -- locating functions
    def impl_range(self, tname):
        toks = self.srcs[FILE_OF[tname]]
        return toks, find_impl(toks, [tname])

    def parse_fn(self, toks, fs, bo, bc, tname):
        where = "%s::%s" % (tname, toks[fs + 1][1])
        p = Parser(toks[fs:bo], where + " signature")
        p.eat("fn")
        name = p.eat(kind="id")
        if p.at("<"):
            p.err("unsupported: generic function")
        p.eat("(")
        selfk, params = None, []
        if p.at("&"):
            p.eat()
            selfk = "ref"
            if p.at("mut"):
                p.eat()
                selfk = "mut"
            p.eat("self")
            if not p.at(")"):
                p.eat(",")
        elif p.at("self") or (p.at("mut") and p.at("self", 1)):
            p.err("unsupported: by-value self")
        while not p.at(")"):
            pt = p.pat()
            p.eat(":")
            params.append((pt, p.ty(SELF_TY[tname])))
            if not p.at(")"):
                p.eat(",")
        p.eat(")")
        ret = None
        if p.at("->"):
            p.eat()
            ret = p.ty(SELF_TY[tname])
        if p.i != len(p.t):
            p.err("unsupported signature tail")
        b = Parser(toks[bo:bc + 1], where)
        body = b.block()
        if b.i != len(b.t):
            b.err("trailing tokens after the body")
        return Fn(tname, name, selfk, params, ret, body)

    def need(self, tname, name):
        key = (tname, name)
        if key not in self.fns:
            if key in self.busy:
                raise TErr("recursion through %s::%s" % key)
            toks, (lo, hi) = self.impl_range(tname)
            try:
                fs, bo, bc = find_fn(toks, name, lo, hi)
            except Exception as e:
                raise TErr("function %s::%s not found (%s)" % (tname, name, e))
            f = self.parse_fn(toks, fs, bo, bc, tname)
            self.busy.append(key)
            self.site += 1
            d = FnTr(self, f, self.site).emit()
            self.busy.pop()
            self.out.append((f.gname, d))
            self.fns[key] = f
        return self.fns[key]

    def place_fn(self, header, tname, fname):
        """a function whose body is `lets; & [mut] PLACE` (view, view_mut, Index/IndexMut impls):
        returns (parameter patterns, let statements, place expression)"""
        toks = self.srcs[FILE_OF[tname]]
        try:
            lo, hi = find_impl(toks, header or [tname])
            fs, bo, bc = find_fn(toks, fname, lo, hi)
        except Exception:
            raise TErr("fn %s not found in impl %s" % (fname, " ".join(header or [tname])))
        p = Parser(toks[fs:bo], "%s::%s signature" % (tname, fname))
        p.eat("fn")
        p.eat(kind="id")
        p.eat("(")
        p.eat("&")
        if p.at("mut"):
            p.eat()
        p.eat("self")
        params = []
        while not p.at(")"):
            p.eat(",")
            params.append(p.pat())
            p.eat(":")
            while not (p.at(",") or p.at(")")):      # the parameter type is fixed by the impl header
                p.eat()
        b = Parser(toks[bo:bc + 1], "%s::%s" % (tname, fname))
        stmts, tail = b.block()
        if tail is None or tail[0] != "ref" or any(s[0] != "let" or s[1][0] != "pvar" for s in stmts):
            raise TErr("%s::%s: not of the form `lets; &place`" % (tname, fname))
        return params, stmts, tail[1]


# ------------------------------------------------------------------------------ one function

class FnTr:
    def __init__(self, tr, f, site):
        self.tr, self.f, self.site = tr, f, site
        self.w = "%s::%s" % (f.tname, f.name)
        self.n_tmp = 0
        self.muts = []

    def err(self, what):
        raise TErr("%s: %s" % (self.w, what))

    def fresh(self, base="t"):
        self.n_tmp += 1
        return "%s%d" % (base, self.n_tmp)

    def put(self, pre, line):
        if pre is None:
            self.err("an operation that needs sequencing (%s) in a closure / on the right of `&&`, `||`" % line.split(" ;;")[0])
        pre.append(line)

    def guard(self, pre, cond, why):
        if pre is None:
            self.err("a panicking operation (%s) in a position where it cannot be sequenced" % why)
        self.put(pre, "_ <- guard %s %d ;;  (* %s *)" % (atom(cond), self.site, why))

    def rebind(self, pre, name, env, val, bind=False):
        """name := val (a new `let` / monadic bind shadows the Gallina variable)"""
        if pre is None:
            self.err("mutation of %s in a position where it cannot be sequenced" % name)
        v = env[name]
        self.put(pre, ("%s <- %s ;;" if bind else "let %s := %s in") % (v.g, val))
        for m in self.muts:
            m.add(name)

    # -- the top level
    def emit(self):
        f = self.f
        env = {}
        binders = []
        if f.selfk:
            env["self"] = Var("self", SELF_TY[f.tname])
            binders.append("(self : %s)" % cty(SELF_TY[f.tname]))
        for pt, ty in f.params:
            binders += self.bind_param(pt, ty, env)
        if f.selfk == "mut":
            rty = cty(SELF_TY[f.tname]) if f.ret is None else "(%s * %s)" % (cty_a(SELF_TY[f.tname]), cty_a(f.ret))
        else:
            if f.ret is None:
                self.err("unsupported: unit function without `&mut self`")
            rty = cty(f.ret)
        self.fin_env = None

        def k(env, val):
            return [self.ret_line(env, val)]
        lines = self.block(f.body, env, k, unit=f.ret is None, nested=False)
        return "Definition %s %s : res %s :=\n%s.\n" % (f.gname, " ".join(binders), atom(rty), "\n".join("  " + x for x in lines))

    def ret_line(self, env, val):
        f = self.f
        if f.ret is None:
            if val is not None and val[1] != "unit":
                self.err("unit function ends with a value")
            return "Ok %s" % env["self"].g
        if val is None:
            self.err("no value returned")
        g, ty = val
        ty = self.unify(ty, f.ret, "return value")
        if f.selfk == "mut":
            return "Ok (%s, %s)" % (env["self"].g, g)
        return "Ok %s" % atom(g)

    def bind_param(self, pt, ty, env):
        if pt[0] == "pvar":
            if ty == "range":
                env[pt[1]] = Var(("v_%s_lo" % pt[1], "v_%s_hi" % pt[1]), "range")
                return ["(v_%s_lo v_%s_hi : nat)" % (pt[1], pt[1])]
            env[pt[1]] = Var("v_" + pt[1], ty)
            return ["(v_%s : %s)" % (pt[1], cty(ty))]
        if pt[0] == "ptuple" and isinstance(ty, tuple) and ty[0] == "tuple" and len(ty[1]) == len(pt[1]):
            out = []
            for p1, t1 in zip(pt[1], ty[1]):
                out += self.bind_param(p1, t1, env)
            return out
        self.err("unsupported parameter pattern")

    # -- types
    def unify(self, a, b, what):
        if a is None:
            return b
        if b is None:
            return a
        if a == b:
            return a
        if isinstance(a, tuple) and isinstance(b, tuple) and a[0] == b[0]:
            if a[0] == "tuple":
                if len(a[1]) == len(b[1]):
                    return ("tuple", [self.unify(x, y, what) for x, y in zip(a[1], b[1])])
            else:
                return (a[0], self.unify(a[1], b[1], what))
        self.err("type mismatch in %s: %s vs %s" % (what, a, b))

    # -- blocks.  k(env, value) -> lines is the continuation; value = (gallina, type) | None
    def block(self, blk, env, k, unit, nested=True):
        stmts, tail = blk
        stmts = list(stmts)
        if nested:
            for st in stmts:                       # Gallina `let` has no block scope: forbid shadowing
                if st[0] == "let" and any(x in env for x in pat_vars(st[1])):
                    self.err("unsupported: `let` shadows an outer variable inside a nested block")
            k0 = k
            k = lambda e, v: k0({x: e[x] for x in env}, v)
        if unit and tail is not None:
            stmts.append(("expr", tail))
            tail = None
        inner = {}
        for x, v in env.items():                  # a live `&mut` borrow is an ordinary local inside a nested block
            inner[x] = v
            if v.alias is not None or v.outer:
                inner[x] = Var(v.g, v.ty)
                inner[x].outer = True
        return self.seq(stmts, 0, tail, inner, k)

    def seq(self, stmts, i, tail, env, k):
        out = []
        while i < len(stmts):
            st = stmts[i]
            rest = (stmts, i + 1, tail)
            lines, terminal = self.stmt(st, env, rest, k)
            out += lines
            if terminal:
                return out
            for x, v in env.items():              # store back the `&mut` borrows whose last use this was
                if v.alias is not None and v.last == id(st):
                    self.store(out, v.alias, v.g, env)
                    env[x] = Var(v.g, v.ty)
            i += 1
        live = [x for x, v in env.items() if v.alias is not None]
        if tail is None:
            if live:
                self.err("internal: borrow of %s still open at the end of a block" % live[0])
            return out + k(env, None)
        if any(mentions(tail, x) for x in live):
            self.err("unsupported: `&mut` borrow used in the tail expression")
        if tail[0] in ("if", "iflet", "match"):
            return out + self.branch_cps(tail, env, lambda env2, v: k(env2, v), unit=False)
        pre = []
        val = self.expr(tail, env, pre)
        return out + pre + k(env, val)

    def set_last_use(self, x, stmts, i, tail):
        """the statement after which the borrow x is stored back: the last one that mentions x"""
        last = None
        for st in stmts[i:]:
            if mentions(st, x):
                last = st
        return last

    # -- statements: returns (lines, terminal)
    def stmt(self, st, env, rest, k):
        stmts, nxt, tail = rest
        pre = []
        if st[0] == "let":
            pat, e = st[1], st[2]
            if e[0] == "ref" and e[2]:                       # let x = &mut place;
                if pat[0] != "pvar":
                    self.err("unsupported pattern for a `&mut` borrow")
                if pat[1] in env:
                    self.err("unsupported: borrow `%s` shadows a variable" % pat[1])
                lens = self.place(e[1], env, pre)
                g = "v_" + pat[1]
                cur = self.load(lens, pre, name=g)
                if cur != g:
                    self.put(pre, "let %s := %s in" % (g, cur))
                last = self.set_last_use(pat[1], stmts, nxt, tail)
                if tail is not None and mentions(tail, pat[1]):
                    self.err("unsupported: `&mut` borrow used in the tail expression")
                env[pat[1]] = Var(g, lens.ty, alias=lens, last=id(last) if last is not None else None)
                if last is None:
                    self.store(pre, lens, g, env)
                    env[pat[1]] = Var(g, lens.ty)
                return pre, False
            if e[0] in ("if", "iflet", "match"):
                self.err("unsupported: `let` bound to a conditional")
            val = self.expr(e, env, pre)
            self.bind_pat(pat, val, env, pre)
            return pre, False
        if st[0] == "assign":
            lhs, op, rhs = st[1], st[2], st[3]
            if op != "=":
                rhs = ("bin", op[0], lhs, rhs)
            g, ty = self.expr(rhs, env, pre)
            lens = self.place(lhs, env, pre)
            self.unify(ty, lens.ty, "assignment")
            self.store(pre, lens, g, env)
            return pre, False
        if st[0] == "return":
            if st[1] is None:
                return [self.ret_line(env, None)], True
            if st[1][0] in ("if", "iflet", "match"):
                self.err("unsupported: `return` of a conditional")
            val = self.expr(st[1], env, pre)
            self.check_no_borrow(env)
            return pre + [self.ret_line(env, val)], True
        if st[0] == "for":
            self.for_loop(st, env, pre)
            return pre, False
        e = st[1]
        if e[0] in ("if", "iflet", "match"):
            if has_return(e):
                self.check_no_borrow(env)
                # continuation-passing: the rest of the block is duplicated into the branches that fall through
                return self.branch_cps(e, env, lambda env2, v: self.seq(stmts, nxt, tail, dict(env2), k), unit=True), True
            return self.branch_merge(e, env), False
        if e[0] == "mcall":
            val = self.expr(e, env, pre, stmt=True)
            return pre, False
        self.err("unsupported expression statement (%s)" % e[0])

    def check_no_borrow(self, env):
        for x, v in env.items():
            if v.alias is not None or v.outer:
                self.err("unsupported: `return` while the borrow `%s` is live" % x)

    def bind_pat(self, pat, val, env, pre):
        g, ty = val
        if pat[0] == "pvar":
            x = pat[1]
            if ty == "range":
                lo, hi = g
                if lo is None or hi is None:
                    self.err("unsupported: open range bound to a variable")
                self.put(pre, "let v_%s_lo := %s in" % (x, lo))
                self.put(pre, "let v_%s_hi := %s in" % (x, hi))
                env[x] = Var(("v_%s_lo" % x, "v_%s_hi" % x), "range")
                return
            if ty is None:
                self.err("cannot determine the type of `let %s`" % x)
            self.put(pre, "let v_%s := %s in" % (x, g))
            env[x] = Var("v_" + x, ty)
            return
        if pat[0] == "ptuple" and isinstance(ty, tuple) and ty[0] == "tuple" and len(ty[1]) == len(pat[1]) \
                and all(p[0] == "pvar" for p in pat[1]):
            self.put(pre, "let '(%s) := %s in" % (", ".join("v_" + p[1] for p in pat[1]), g))
            for p, t in zip(pat[1], ty[1]):
                env[p[1]] = Var("v_" + p[1], t)
            return
        self.err("unsupported `let` pattern")

    # -- conditionals
    def branches(self, e, env, pre):
        """-> (header lines per branch, [(branch header, block|None, env)], closing line)"""
        if e[0] == "if":
            g, ty = self.expr(e[1], env, pre)
            if ty != "bool":
                self.err("`if` condition of type %s" % (ty,))
            return [("if %s then" % g, e[2], env), ("else", e[3], env)], ""
        if e[0] == "iflet":
            pat, scrut = e[1], e[2]
            g, ty = self.expr(scrut, env, pre)
            if pat[0] != "pctor" or len(pat[2]) != 1 or pat[2][0][0] != "pvar":
                self.err("unsupported `if let` pattern")
            x = pat[2][0][1]
            env2 = dict(env)
            if isinstance(ty, tuple) and ty[0] == "option" and pat[1] == "Some":
                env2[x] = Var("v_" + x, ty[1])
                return [("match %s with\n| Some v_%s =>" % (g, x), e[3], env2), ("| None =>", e[4], env)], "end"
            if isinstance(ty, tuple) and ty[0] == "result" and pat[1] in ("Ok", "Err"):
                env2[x] = Var("v_" + x, ty[1])
                c1, c2 = ("inl", "inr") if pat[1] == "Ok" else ("inr", "inl")
                return [("match %s with\n| %s v_%s =>" % (g, c1, x), e[3], env2), ("| %s _ =>" % c2, e[4], env)], "end"
            self.err("unsupported `if let %s(..)` on a value of type %s" % (pat[1], ty))
        if e[0] == "match":
            g, ty = self.expr(e[1], env, pre)
            if ty != "erase_mode":
                self.err("unsupported: `match` on a value of type %s" % (ty,))
            seen, out = [], []
            for pat, body in e[2]:
                if pat[0] != "pctor" or any(p[0] != "pvar" for p in pat[2]):
                    self.err("unsupported match pattern")
                want = dict(ERASE_MODES).get(pat[1])
                if want is None or len(want) != len(pat[2]):
                    self.err("unknown EraseMode pattern %s" % pat[1])
                env2 = dict(env)
                for p in pat[2]:
                    env2[p[1]] = Var("v_" + p[1], "nat")
                out.append(("| %s =>" % " ".join([pat[1]] + ["v_" + p[1] for p in pat[2]]), body, env2))
                seen.append(pat[1])
            if seen != [c for c, _ in ERASE_MODES]:
                self.err("match on EraseMode: arms %s" % seen)
            out[0] = ("match %s with\n%s" % (g, out[0][0]), out[0][1], out[0][2])
            return out, "end"
        self.err("internal: branches")

    def branch_cps(self, e, env, k, unit):
        pre = []
        brs, close = self.branches(e, env, pre)
        out = list(pre)
        for hdr, blk, env2 in brs:
            out += hdr.split("\n")
            if blk is None:
                if not unit:
                    self.err("conditional without `else` used as a value")
                body = k(env2, None)
            else:
                body = self.block(blk, env2, k, unit=unit)
            out += ["  " + x for x in body]
        if close:
            out.append(close)
        return out

    def branch_merge(self, e, env):
        pre = []
        brs, close = self.branches(e, env, pre)
        self.muts.append(set())
        bodies = []
        for hdr, blk, env2 in brs:
            if blk is None:
                bodies.append(["Ok @MERGE@"])
            else:
                for s in blk[0]:
                    if s[0] == "let" and s[1][0] == "pvar" and s[1][1] in env:
                        self.err("unsupported: `let %s` shadows an outer variable inside a nested block" % s[1][1])
                bodies.append(self.block(blk, env2, lambda env3, v: ["Ok @MERGE@"], unit=True))
        m = self.muts.pop()
        names = [x for x in env if x in m]
        for s in self.muts:
            s.update(names)
        if any(env[x].ty == "range" for x in names):
            self.err("unsupported: range variable assigned inside a conditional")
        gs = [env[x].g for x in names]
        tup = "tt" if not gs else gs[0] if len(gs) == 1 else "(%s)" % ", ".join(gs)
        binder = "_" if not gs else gs[0] if len(gs) == 1 else "'" + tup
        body_lines = []
        for (hdr, blk, env2), body in zip(brs, bodies):
            body_lines += hdr.split("\n")
            body_lines += ["  " + x.replace("@MERGE@", tup) for x in body]
        if close:
            body_lines.append(close)
        body_lines[0] = "%s <- (%s" % (binder, body_lines[0])
        body_lines[-1] += ") ;;"
        return list(pre) + body_lines

    # -- loops (idioms only)
    def for_loop(self, st, env, pre):
        pat, it, (body, btail) = st[1], st[2], st[3]
        if btail is not None:
            body = body + [("expr", btail)]
        if len(body) != 1 or body[0][0] != "expr" or body[0][1][0] != "mcall":
            self.err("unsupported `for` loop (body is not a single method call)")
        _, recv, meth, args = body[0][1]
        if meth == "push" and pat[0] == "pvar" and args == [("var", pat[1])] and not mentions(recv, pat[1]):
            # for x in it { v.push(x); }   ==   v.extend(it)
            g, ty = self.expr(it, env, pre)
            if not (isinstance(ty, tuple) and ty[0] == "list"):
                self.err("unsupported `for` iterator of type %s" % (ty,))
            lens = self.place(recv, env, pre)
            self.unify(lens.ty, ty, "push in a `for` loop")
            self.store(pre, lens, "%s ++ %s" % (atom(self.load(lens, pre)), atom(g)), env)
            return
        if meth == "insert" and pat[0] == "pwild" and len(args) == 2 and it[0] == "range":
            # for _ in a..b { v.insert(i, x.clone()); } with i, x, a, b not touched by the loop
            (lo, hi), ty = self.expr(it, env, pre)
            if lo is None or hi is None:
                self.err("unsupported `for` over an open range")
            cnt = hi if lo == "0" else "(%s - %s)" % (hi, lo)
            gi, ti = self.expr(args[0], env, pre)
            gx, tx = self.expr(args[1], env, pre)
            lens = self.place(recv, env, pre)
            if mentions([it, args], lens.root()):
                self.err("unsupported `for` loop: the loop bounds / arguments depend on the mutated vector")
            self.unify(lens.ty, ("list", tx), "insert in a `for` loop")
            cur = self.load(lens, pre)
            self.guard(pre, "(%s =? 0) || (%s <=? length %s)" % (cnt, gi, atom(cur)), "Vec::insert, repeated")
            self.store(pre, lens, "insert_n %s %s %s %s" % (atom(gi), atom(cnt), atom(gx), atom(cur)), env)
            return
        self.err("unsupported `for` loop")

    # -- places
    def place(self, e, env, pre):
        k = e[0]
        if k in ("paren", "ref", "deref"):
            return self.place(e[1], env, pre)
        if k in ("self", "var"):
            x = "self" if k == "self" else e[1]
            if x not in env:
                self.err("unknown variable %s" % x)
            v = env[x]
            if v.place is not None:
                return v.place
            if v.ty == "range":
                self.err("unsupported: range variable as a place")
            return Lens("var", v.ty, name=x, g=v.g)
        if k == "field":
            return self.field_lens(self.place(e[1], env, pre), e[2])
        if k == "mcall" and e[1] == ("self",) and e[2] in ("view_mut", "view") and not e[3] \
                and "self" in env and env["self"].ty == "buffer":
            return self.inline_place(None, "Buffer", e[2], [], self.place(e[1], env, pre), env, pre)
        if k == "index":
            p = self.place(e[1], env, pre)
            if p.ty in ("buffer", "line"):
                # user-defined indexing: the impl of Index / IndexMut is read from the source and inlined
                tname = STRUCT_TY[p.ty]
                hdr = {"elem": ["usize", ">"], "range": ["Range", "<", "usize", ">>"],   # rustlex reads `>>` as one token
                       "full": ["RangeFull", ">"]}[self.index_kind(e[2], env)]
                if p.ty == "buffer" and self.f.selfk == "mut":
                    return self.inline_place(["IndexMut", "<"] + hdr + ["for", tname], tname, "index_mut", [e[2]], p, env, pre)
                return self.inline_place(["Index", "<"] + hdr + ["for", tname], tname, "index", [e[2]], p, env, pre)
            return self.index_lens(p, e[2], env, pre)
        self.err("unsupported place expression (%s)" % k)

    def index_kind(self, ix, env):
        if ix[0] == "range":
            return "full" if ix[1] is None and ix[2] is None else "range"
        if ix[0] == "var" and ix[1] in env and env[ix[1]].ty == "range":
            lo, hi = env[ix[1]].g
            return "full" if lo is None and hi is None else "range"
        return "elem"

    def inline_place(self, header, tname, fname, args, recv, env, pre):
        """inline a place function (`lets; &place`): `self` stands for the receiver place, the parameters for the
        evaluated arguments, the `let`s are emitted under fresh names"""
        params, stmts, pl = self.tr.place_fn(header, tname, fname)
        if len(params) != len(args) or any(p[0] != "pvar" for p in params):
            self.err("unsupported parameters of %s::%s" % (tname, fname))
        env2 = {"self": Var(None, recv.ty, place=recv)}
        for p, a in zip(params, args):
            g, ty = self.expr(a, env, pre)
            env2[p[1]] = Var(g, ty)
        for s in stmts:
            g, ty = self.expr(s[2], env2, pre)
            nm = "%s_%s" % (self.fresh("i"), s[1][1])
            self.put(pre, "let %s := %s in" % (nm, g))
            env2[s[1][1]] = Var(nm, ty)
        return self.place(pl, env2, pre)

    def field_lens(self, p, name):
        if p.kind not in ("var", "field", "elem"):
            self.err("unsupported: field of a slice")
        if isinstance(p.ty, tuple) and name == "0" and p.ty[0] == "list":
            return p                                     # Tabs(v).0 / DirtyLines(v).0
        sname = STRUCT_TY.get(p.ty) if isinstance(p.ty, str) else None
        if sname is None:
            self.err("unsupported: field .%s of a value of type %s" % (name, p.ty))
        for rf, _, proj, ty in STRUCTS[sname][1]:
            if rf == name:
                if sname == "ScrollbackLimit":
                    return Lens("ro", "nat", g="N.to_nat (%s %s)" % (proj, atom(self.load(p, None))))
                return Lens("field", ty, par=p, a=proj)
        self.err("unknown field %s.%s" % (sname, name))

    def plen(self, p, pre):
        """length of a list place"""
        if p.kind == "tail":
            return "(%s - %s)" % (self.plen(p.par, pre), p.a)
        if p.kind == "slice":
            return "(%s - %s)" % (p.b, p.a)
        return "length %s" % atom(self.load(p, pre))

    def index_lens(self, p, ix, env, pre):
        if not (isinstance(p.ty, tuple) and p.ty[0] == "list"):
            self.err("unsupported: indexing a value of type %s" % (p.ty,))
        if p.kind not in ("var", "field", "tail"):
            self.err("unsupported: indexing a sub-slice")
        kind = self.index_kind(ix, env)
        if kind == "elem":
            g, ty = self.expr(ix, env, pre)
            self.unify(ty, "nat", "index")
            self.guard(pre, "%s <? %s" % (atom(g), self.plen(p, pre)), "index")
            if p.kind == "tail":                         # v[s..][i]  is  v[s + i]
                return Lens("elem", p.ty[1], par=p.par, a="%s + %s" % (p.a, atom(g)))
            return Lens("elem", p.ty[1], par=p, a=g)
        (lo, hi), _ = self.expr(ix, env, pre)
        lo = lo or "0"
        if hi is None:
            if p.kind == "tail":
                self.err("unsupported: open-ended slice of a slice")
            if lo != "0":
                self.guard(pre, "%s <=? %s" % (lo, self.plen(p, pre)), "slice start")
            return Lens("tail", p.ty, par=p, a=lo)
        self.guard(pre, "%s <=? %s" % (lo, hi), "slice start <= end")
        self.guard(pre, "%s <=? %s" % (hi, self.plen(p, pre)), "slice end")
        return Lens("slice", p.ty, par=p, a=lo, b=hi)

    def load(self, lens, pre, name=None):
        """current value of a place as a Gallina expression"""
        if lens.kind in ("var", "ro"):
            return lens.g
        if lens.kind == "field":
            return "%s %s" % (lens.a, atom(self.load(lens.par, pre)))
        if lens.kind == "elem":
            if lens.loaded is None:
                if pre is None:
                    self.err("element access in a position where it cannot be sequenced")
                par = atom(self.load(lens.par, pre))
                lens.loaded = name or self.fresh()
                self.put(pre, "%s <- nthM %s %s %d ;;" % (lens.loaded, par, atom(lens.a), self.site))
            return lens.loaded
        if lens.kind == "tail":
            return "skipn %s %s" % (atom(lens.a), atom(self.load(lens.par, pre)))
        return "firstn (%s - %s) (skipn %s %s)" % (lens.b, lens.a, atom(lens.a), atom(self.load(lens.par, pre)))

    def store(self, pre, lens, new, env):
        """place := new"""
        if lens.kind == "var":
            self.rebind(pre, lens.name, env, new)
        elif lens.kind == "field":
            self.store(pre, lens.par, "%s <| %s := %s |>" % (atom(self.load(lens.par, pre)), lens.a, new), env)
        elif lens.kind == "elem":
            self.store(pre, lens.par, "upd %s (fun _ => %s) %s" % (atom(lens.a), new, atom(self.load(lens.par, pre))), env)
            lens.loaded = None
        else:
            self.err("unsupported: assignment to a %s" % {"ro": "field of ScrollbackLimit"}.get(lens.kind, "slice"))

    def store_list(self, pre, lens, f, env):
        """list place := f(old), f a format string; for v[s..] the function acts on `skipn s v`"""
        if lens.kind == "tail":
            old = atom(self.load(lens.par, pre))
            a = atom(lens.a)
            self.store(pre, lens.par, "firstn %s %s ++ %s" % (a, old, f % ("(skipn %s %s)" % (a, old))), env)
        elif lens.kind in ("var", "field"):
            self.store(pre, lens, f % atom(self.load(lens, pre)), env)
        else:
            self.err("unsupported: nested slices")

    # -- expressions: returns (gallina, type)
    def expr(self, e, env, pre, stmt=False):
        k = e[0]
        if k == "num":
            return str(e[1]), "nat"
        if k == "bool":
            return ("true" if e[1] else "false"), "bool"
        if k == "paren":
            g, ty = self.expr(e[1], env, pre)
            return g, ty
        if k in ("ref", "deref"):
            return self.expr(e[1], env, pre)
        if k == "var":
            if e[1] not in env:
                self.err("unknown variable %s" % e[1])
            return env[e[1]].g, env[e[1]].ty
        if k == "self":
            return env["self"].g, env["self"].ty
        if k == "not":
            g, ty = self.expr(e[1], env, pre)
            if ty != "bool":
                self.err("unsupported: `!` at type %s" % (ty,))
            return "negb %s" % atom(g), "bool"
        if k == "bin":
            return self.binop(e, env, pre)
        if k == "range":
            lo = hi = None
            if e[1] is not None:
                lo, t = self.expr(e[1], env, pre)
                self.unify(t, "nat", "range")
                lo = atom(lo)
            if e[2] is not None:
                hi, t = self.expr(e[2], env, pre)
                self.unify(t, "nat", "range")
                hi = atom(hi)
            return (lo, hi), "range"
        if k == "tuple":
            vs = [self.expr(x, env, pre) for x in e[1]]
            if any(t == "range" for _, t in vs):
                self.err("unsupported: range inside a tuple")
            return "(%s)" % ", ".join(g for g, _ in vs), ("tuple", [t for _, t in vs])
        if k == "field":
            if e[1][0] == "var" and e[1][1] in env and env[e[1][1]].ty == "range":
                lo, hi = env[e[1][1]].g
                if e[2] not in ("start", "end"):
                    self.err("unknown field .%s of a range" % e[2])
                return (lo if e[2] == "start" else hi), "nat"
            lens = self.place(e, env, pre)
            return self.load(lens, pre), lens.ty
        if k == "index":
            lens = self.place(e, env, pre)
            return self.load(lens, pre), lens.ty
        if k == "vec":
            if e[1] is None:
                return "[]", ("list", None)
            gx, tx = self.expr(e[1], env, pre)
            gn, tn = self.expr(e[2], env, pre)
            self.unify(tn, "nat", "vec! length")
            return "repeat %s %s" % (atom(gx), atom(gn)), ("list", tx)
        if k == "struct":
            if e[1] not in STRUCTS:
                self.err("unsupported: struct literal " + e[1])
            ctor, fields = STRUCTS[e[1]]
            given = dict(e[2])
            if sorted(given) != sorted(f for f, _, _, _ in fields) or len(given) != len(e[2]):
                self.err("struct literal %s: fields %s" % (e[1], [f for f, _ in e[2]]))
            # Rust evaluates the field expressions in source order
            vals = {}
            for f, ex in e[2]:
                vals[f] = self.expr(ex, env, pre)
            gs = []
            for f, _, _, ty in fields:
                self.unify(vals[f][1], ty, "field %s of %s" % (f, e[1]))
                gs.append(atom(vals[f][0]))
            if e[1] == "ScrollbackLimit":
                return "(N.of_nat %s, N.of_nat %s)" % tuple(gs), "limit"
            return "%s %s" % (ctor, " ".join(gs)), {v: k2 for k2, v in STRUCT_TY.items()}[e[1]]
        if k == "path":
            if e[1] == ["None"]:
                return "None", ("option", None)
            self.err("unsupported path " + "::".join(e[1]))
        if k == "call":
            return self.call(e, env, pre)
        if k == "mcall":
            return self.mcall(e, env, pre, stmt)
        if k == "if":
            if e[3] is None:
                self.err("`if` without `else` used as a value")
            gc, tc = self.expr(e[1], env, pre)
            if tc != "bool":
                self.err("`if` condition of type %s" % (tc,))
            vs = []
            for blk in (e[2], e[3]):
                if blk[0] or blk[1] is None:
                    self.err("unsupported: statements inside a value-producing `if`")
                vs.append(self.expr(blk[1], env, None))
            ty = self.unify(vs[0][1], vs[1][1], "if branches")
            return "if %s then %s else %s" % (gc, vs[0][0], vs[1][0]), ty
        if k == "closure":
            self.err("unsupported: closure outside an iterator adaptor")
        self.err("unsupported expression (%s)" % k)

    def binop(self, e, env, pre):
        op = e[1]
        if op in ("&&", "||"):
            ga, ta = self.expr(e[2], env, pre)
            gb, tb = self.expr(e[3], env, None)       # short circuit: no panicking operation on the right
            if ta != "bool" or tb != "bool":
                self.err("`%s` on non-bool operands" % op)
            return "%s %s %s" % (atom(ga), op, atom(gb)), "bool"
        ga, ta = self.expr(e[2], env, pre)
        gb, tb = self.expr(e[3], env, pre)
        ty = self.unify(ta, tb, "`%s`" % op)
        ga, gb = atom(ga), atom(gb)
        if op in ("==", "!=", "<", "<=", ">", ">="):
            if ty == "bool" and op in ("==", "!="):
                g = "Bool.eqb %s %s" % (ga, gb)
                return ("negb (%s)" % g if op == "!=" else g), "bool"
            if ty != "nat":
                self.err("unsupported: comparison `%s` at type %s" % (op, ty))
            if op in (">", ">="):
                ga, gb, op = gb, ga, {">": "<", ">=": "<="}[op]
            return {"==": "%s =? %s", "!=": "negb (%s =? %s)", "<": "%s <? %s", "<=": "%s <=? %s"}[op] % (ga, gb), "bool"
        if ty != "nat":
            self.err("unsupported: arithmetic `%s` at type %s" % (op, ty))
        if op in ("+", "*"):
            return "%s %s %s" % (ga, op, gb), "nat"
        if op == "-":
            self.guard(pre, "%s <=? %s" % (gb, ga), "%s - %s" % (ga, gb))
            return "%s - %s" % (ga, gb), "nat"
        if op in ("/", "%"):
            if not (gb.isdigit() and int(gb) > 0):
                self.guard(pre, "negb (%s =? 0)" % gb, "division")
            return "%s %s %s" % (ga, "/" if op == "/" else "mod", gb), "nat"
        self.err("unsupported operator %s" % op)

    def closure(self, c, argty, env, want=None):
        if c[0] != "closure" or len(c[1]) != 1:
            self.err("expected a one-parameter closure")
        env2 = dict(env)
        pat = c[1][0]
        if pat[0] == "pvar":
            env2[pat[1]] = Var("v_" + pat[1], argty)
            b = "v_" + pat[1]
        elif pat[0] == "ptuple" and isinstance(argty, tuple) and argty[0] == "tuple" and len(argty[1]) == len(pat[1]) \
                and all(p[0] == "pvar" for p in pat[1]):
            for p, t in zip(pat[1], argty[1]):
                env2[p[1]] = Var("v_" + p[1], t)
            b = "'((%s) : %s)" % (", ".join("v_" + p[1] for p in pat[1]), " * ".join(cty_a(t) for t in argty[1]))
        else:
            self.err("unsupported closure parameter")
        g, ty = self.expr(c[2], env2, None)
        if want is not None:
            self.unify(ty, want, "closure result")
        return "(fun %s => %s)" % (b, g), ty

    def call(self, e, env, pre):
        path, args = e[1], e[2]
        if path == ["Some"] and len(args) == 1:
            g, ty = self.expr(args[0], env, pre)
            return "Some %s" % atom(g), ("option", ty)
        if path in (["Tabs"], ["DirtyLines"]) and len(args) == 1:
            g, ty = self.expr(args[0], env, pre)
            self.unify(ty, SELF_TY[path[0]], "%s(..)" % path[0])
            return g, SELF_TY[path[0]]
        if path == ["Cell", "blank"] and len(args) == 1:
            g, ty = self.expr(args[0], env, pre)
            self.unify(ty, "pen", "Cell::blank")
            return "blank_cell %s" % atom(g), "cell"
        if path == ["Pen", "default"] and not args:
            return "default_pen", "pen"
        if path == ["std", "iter", "repeat"] and len(args) == 1:
            g, ty = self.expr(args[0], env, pre)
            return g, ("repeat", ty)
        if len(path) == 2 and path[0] in FILE_OF:
            f = self.tr.need(path[0], path[1])
            if f.selfk is not None:
                self.err("%s::%s called as an associated function" % tuple(path))
            return self.user_call(f, None, args, env, pre)
        self.err("unsupported call %s(..)" % "::".join(path))

    def user_args(self, f, args, env, pre):
        if len(args) != len(f.params):
            self.err("call of %s::%s with %d arguments" % (f.tname, f.name, len(args)))
        gs = []
        for a, (pt, ty) in zip(args, f.params):
            g, t = self.expr(a, env, pre)
            if ty == ("tuple", ["nat", "nat"]) and pt[0] == "ptuple":
                self.err("unsupported: tuple argument")
            self.unify(t, ty, "argument of %s::%s" % (f.tname, f.name))
            if t == "range":
                if g[0] is None or g[1] is None:
                    self.err("unsupported: open range as an argument")
                gs += [atom(g[0]), atom(g[1])]
            else:
                gs.append(atom(g))
        return gs

    def user_call(self, f, recv_lens, args, env, pre):
        """call of a translated function; returns (value, type) ('tt','unit' for unit functions)"""
        if pre is None:
            self.err("call of %s::%s in a position where it cannot be sequenced" % (f.tname, f.name))
        gs = self.user_args(f, args, env, pre)
        if f.selfk is None:
            t = self.fresh()
            self.put(pre, "%s <- %s %s ;;" % (t, f.gname, " ".join(gs)) if gs else "%s <- %s ;;" % (t, f.gname))
            return t, f.ret
        cur = self.load(recv_lens, pre)
        app = " ".join([f.gname, atom(cur)] + gs)
        if f.selfk == "ref":
            t = self.fresh()
            self.put(pre, "%s <- %s ;;" % (t, app))
            return t, f.ret
        if f.ret is None:
            if recv_lens.kind == "var":
                self.rebind(pre, recv_lens.name, env, app, bind=True)
            else:
                t = self.fresh()
                self.put(pre, "%s <- %s ;;" % (t, app))
                self.store(pre, recv_lens, t, env)
            return "tt", "unit"
        t, r = self.fresh(), self.fresh()
        self.put(pre, "'(%s, %s) <- %s ;;" % (t, r, app))
        self.store(pre, recv_lens, t, env)
        return r, f.ret

    def mcall(self, e, env, pre, stmt):
        recv, name, args = e[1], e[2], e[3]
        # --- values that are not places: iterators, options, integers
        if name in ("min", "max") and len(args) == 1:
            ga, ta = self.expr(recv, env, pre)
            if ta == "nat":
                gb, tb = self.expr(args[0], env, pre)
                self.unify(tb, "nat", "." + name)
                return "Nat.%s %s %s" % (name, atom(ga), atom(gb)), "nat"
            self.err("unsupported: .%s at type %s" % (name, ta))
        if name == "clone" and not args:
            return self.expr(recv, env, pre)
        if name == "step_by" and len(args) == 1:
            (lo, hi), ty = self.expr(recv, env, pre)
            if ty != "range" or lo is None or hi is None:
                self.err("unsupported: step_by on %s" % (ty,))
            gk, tk = self.expr(args[0], env, pre)
            if not (gk.isdigit() and int(gk) > 0):
                self.guard(pre, "negb (%s =? 0)" % atom(gk), "step_by(0)")
            return "range_step %s %s %s" % (lo, hi, atom(gk)), ("list", "nat")
        if self.is_iter_chain(recv) or name in ("unwrap_or", "map"):
            gr, tr_ = self.expr(recv, env, pre)
            return self.iter_method(gr, tr_, name, args, env, pre)
        # --- places
        lens = self.place(recv, env, pre)
        ty = lens.ty
        if ty in ("line", "buffer") and lens.kind in ("var", "field", "elem"):
            f = self.tr.need(STRUCT_TY[ty], name)
            if f.selfk is None:
                self.err("%s::%s called as a method" % (f.tname, f.name))
            if f.selfk == "mut" and lens.root() == "self" and self.f.selfk != "mut":
                self.err("`&mut self` method called without `&mut self`")
            return self.user_call(f, lens, args, env, pre)
        if ty == "cell" and name == "is_default" and not args:
            return "cell_is_default %s" % atom(self.load(lens, pre)), "bool"
        if isinstance(ty, tuple) and ty[0] == "list":
            return self.list_method(lens, name, args, env, pre, stmt)
        self.err("unsupported method call .%s(..) on a value of type %s" % (name, ty))

    def is_iter_chain(self, e):
        return e[0] == "mcall" and (e[2] in ITER_METHODS or self.is_iter_chain(e[1])) or \
            (e[0] == "call" and e[1] == ["std", "iter", "repeat"]) or \
            (e[0] == "paren" and e[1][0] == "range")

    def iter_method(self, g, ty, name, args, env, pre):
        g = atom(g)
        if isinstance(ty, tuple) and ty[0] == "repeat":
            if name == "take" and len(args) == 1:
                gn, tn = self.expr(args[0], env, pre)
                self.unify(tn, "nat", "take")
                return "repeat %s %s" % (g, atom(gn)), ("list", ty[1])
            self.err("unsupported: .%s on iter::repeat" % name)
        if isinstance(ty, tuple) and ty[0] == "option":
            if name == "copied" and not args:
                return g, ty
            if name == "unwrap_or" and len(args) == 1:
                gd, td = self.expr(args[0], env, pre)
                return "unwrap_or %s %s" % (g, atom(gd)), self.unify(ty[1], td, "unwrap_or")
            if name == "map" and len(args) == 1:
                gc, tc = self.closure(args[0], ty[1], env)
                return "option_map %s %s" % (gc, g), ("option", tc)
            self.err("unsupported: .%s on an Option" % name)
        if not (isinstance(ty, tuple) and ty[0] == "list"):
            self.err("unsupported: .%s on a value of type %s" % (name, ty))
        ety = ty[1]
        if name in ("iter", "copied", "collect") and not args:
            return g, ty
        if name == "rev" and not args:
            return "rev %s" % g, ty
        if name in ("take_while", "skip_while") and len(args) == 1:
            gc, _ = self.closure(args[0], ety, env, "bool")
            return "%s %s %s" % (name, gc, g), ty
        if name == "all" and len(args) == 1:
            gc, _ = self.closure(args[0], ety, env, "bool")
            return "forallb %s %s" % (gc, g), "bool"
        if name == "filter_map" and len(args) == 1:
            gc, tc = self.closure(args[0], ety, env)
            if not (isinstance(tc, tuple) and tc[0] == "option"):
                self.err("filter_map closure of type %s" % (tc,))
            return "filter_map %s %s" % (gc, g), ("list", tc[1])
        if name == "enumerate" and not args:
            return "enumerate %s" % g, ("list", ("tuple", ["nat", ety]))
        if name == "count" and not args:
            return "length %s" % g, "nat"
        if name == "take" and len(args) == 1:
            gn, tn = self.expr(args[0], env, pre)
            self.unify(tn, "nat", "take")
            return "firstn %s %s" % (atom(gn), g), ty
        if name == "nth" and len(args) == 1:
            gn, tn = self.expr(args[0], env, pre)
            self.unify(tn, "nat", "nth")
            return "nth_error %s %s" % (g, atom(gn)), ("option", ety)
        self.err("unsupported iterator method .%s" % name)

    def list_method(self, lens, name, args, env, pre, stmt):
        ety = lens.ty[1]

        def arg(i, want):
            g, t = self.expr(args[i], env, pre)
            self.unify(t, want, "argument of .%s" % name)
            return atom(g)

        def nargs(n):
            if len(args) != n:
                self.err(".%s with %d arguments" % (name, len(args)))
        # --- sub-slices: v[a..b].fill / rotate
        if lens.kind in ("slice", "tail") and name in ("fill", "rotate_left", "rotate_right"):
            nargs(1)
            par = lens.par
            a = atom(lens.a)
            b = atom(lens.b) if lens.kind == "slice" else atom(self.plen(par, pre))
            if name == "fill":
                x = arg(0, ety)
                self.store_list(pre, par, "fill_range %s %s %s %%s" % (a, b, x), env)
            else:
                n = arg(0, "nat")
                self.guard(pre, "%s <=? %s - %s" % (n, b, a), name)
                self.store_list(pre, par, "on_range %s %s (%s %s) %%s" % (a, b, {"rotate_left": "rotl", "rotate_right": "rotr"}[name], n), env)
            return "tt", "unit"
        if lens.kind == "tail" and name == "len" and not args:
            return self.plen(lens, pre), "nat"
        if lens.kind not in ("var", "field"):
            if name in ("iter",) and not args:
                return self.load(lens, pre), lens.ty
            self.err("unsupported method .%s on a slice" % name)
        cur = atom(self.load(lens, pre))
        if name == "len":
            nargs(0)
            return "length %s" % cur, "nat"
        if name == "is_empty":
            nargs(0)
            return "length %s =? 0" % cur, "bool"
        if name == "iter":
            nargs(0)
            return self.load(lens, pre), lens.ty
        if name == "binary_search":
            nargs(1)
            return "bsearch %s %s" % (arg(0, ety), cur), ("result", "nat")
        if name == "partition_point":
            nargs(1)
            gc, _ = self.closure(args[0], ety, env, "bool")
            return "partition_point %s %s" % (gc, cur), "nat"
        # --- mutators
        if name in ("rotate_left", "rotate_right"):
            nargs(1)
            n = arg(0, "nat")
            self.guard(pre, "%s <=? length %s" % (n, cur), name)
            self.store(pre, lens, "%s %s %s" % ({"rotate_left": "rotl", "rotate_right": "rotr"}[name], n, cur), env)
            return "tt", "unit"
        if name == "fill":
            nargs(1)
            self.store(pre, lens, "fill_range 0 (length %s) %s %s" % (cur, arg(0, ety), cur), env)
            return "tt", "unit"
        if name == "insert":
            nargs(2)
            i, x = arg(0, "nat"), arg(1, ety)
            self.guard(pre, "%s <=? length %s" % (i, cur), "Vec::insert")
            self.store(pre, lens, "insert_n %s 1 %s %s" % (i, x, cur), env)
            return "tt", "unit"
        if name == "remove":
            nargs(1)
            i = arg(0, "nat")
            self.guard(pre, "%s <? length %s" % (i, cur), "Vec::remove")
            self.store(pre, lens, "firstn %s %s ++ skipn (S %s) %s" % (i, cur, i, cur), env)
            return "tt", "unit"
        if name == "push":
            nargs(1)
            self.store(pre, lens, "%s ++ [%s]" % (cur, arg(0, ety)), env)
            return "tt", "unit"
        if name == "extend":
            nargs(1)
            g, t = self.expr(args[0], env, pre)
            self.unify(t, lens.ty, "Vec::extend")
            self.store(pre, lens, "%s ++ %s" % (cur, atom(g)), env)
            return "tt", "unit"
        if name == "truncate":
            nargs(1)
            self.store(pre, lens, "firstn %s %s" % (arg(0, "nat"), cur), env)
            return "tt", "unit"
        if name == "clear":
            nargs(0)
            self.store(pre, lens, "[]", env)
            return "tt", "unit"
        if name == "resize":
            nargs(2)
            n, x = arg(0, "nat"), arg(1, ety)
            self.store(pre, lens, "firstn %s %s ++ repeat %s (%s - length %s)" % (n, cur, x, n, cur), env)
            return "tt", "unit"
        if name == "reserve":
            nargs(1)
            arg(0, "nat")
            return "tt", "unit"
        if name in ("drain", "split_off"):
            nargs(1)
            if name == "drain":
                if args[0][0] != "range" or args[0][1] is not None or args[0][2] is None:
                    self.err("unsupported: drain of anything but `..n`")
                n = self.expr(args[0][2], env, pre)
                self.unify(n[1], "nat", "drain")
                n = atom(n[0])
            else:
                n = arg(0, "nat")
            self.guard(pre, "%s <=? length %s" % (n, cur), "Vec::" + name)
            t = self.fresh()
            taken, kept = ("firstn", "skipn") if name == "drain" else ("skipn", "firstn")
            self.put(pre, "let %s := %s %s %s in" % (t, taken, n, cur))
            self.store(pre, lens, "%s %s %s" % (kept, n, cur), env)
            return t, lens.ty
        self.err("unsupported Vec/slice method .%s" % name)


# ------------------------------------------------------------------------------ source checks + driver

def struct_decl(toks, name):
    for i in range(len(toks) - 2):
        if toks[i] == ("id", "struct") and toks[i + 1] == ("id", name):
            j = i + 2
            if toks[j] == ("punct", "{"):
                c = match_close(toks, j)
                out, cur, d = [], [], 0
                for k, t in toks[j + 1:c] + [("punct", ",")]:
                    if k == "punct" and t in "([{<":
                        d += 1
                    elif k == "punct" and t in ")]}>":
                        d -= 1
                    if d == 0 and (k, t) == ("punct", ","):
                        cur = [x for x in cur if x[1] not in ("pub", "crate") and x[1] not in "()"]
                        if cur:
                            out.append((cur[0][1], text(cur[2:])))
                        cur = []
                    else:
                        cur.append((k, t))
                return out
            if toks[j] == ("punct", "("):
                c = match_close(toks, j)
                return text([x for x in toks[j + 1:c] if x[1] not in ("pub", "crate")])
    raise TErr("struct %s not found" % name)


def check_sources(srcs):
    for sname, (_, fields) in STRUCTS.items():
        toks = srcs["buffer" if sname != "Line" else "line"]
        got = struct_decl(toks, sname)
        want = [(f, t) for f, t, _, _ in fields]
        if got != want:
            raise TErr("struct %s: fields %s (expected %s)" % (sname, got, want))
    for sname, inner in TUPLE_STRUCTS.items():
        got = struct_decl(srcs[FILE_OF[sname]], sname)
        if got != inner:
            raise TErr("struct %s: %s (expected %s)" % (sname, got, inner))
    # enum EraseMode
    toks = srcs["buffer"]
    for i in range(len(toks) - 2):
        if toks[i] == ("id", "enum") and toks[i + 1] == ("id", "EraseMode"):
            c = match_close(toks, i + 2)
            got = text(toks[i + 3:c])
            want = " , ".join(n + (" ( %s )" % " , ".join(a) if a else "") for n, a in ERASE_MODES) + " ,"
            if got != want:
                raise TErr("enum EraseMode: %s" % got)
            break
    else:
        raise TErr("enum EraseMode not found")
    if "type VisualPosition = ( usize , usize ) ;" not in text(toks):
        raise TErr("type VisualPosition is not (usize, usize)")
    for fkey, tname, fn, want in EXTERN_CHECKS:
        t = srcs[fkey]
        lo, hi = find_impl(t, tname.split())
        _, bo, bc = find_fn(t, fn, lo, hi)
        if text(t[bo + 1:bc]) != want:
            raise TErr("%s::%s: unexpected body %s" % (tname, fn, text(t[bo + 1:bc])))


PRELUDE = """From Coq Require Import List Arith NArith Bool.
From Avt Require Import Model.Prims.
Import ListNotations.
Local Open Scope bool_scope.

(** Uses of the model: the records [line], [buffer] (Model/Types.v), the list primitives and the panic
    monad (Model/Base.v), and from Model/Prims.v only [blank_cell] (cell.rs [Cell::blank], body checked),
    [cell_is_default] (cell.rs [Cell::is_default], body checked), [default_pen] (pen.rs [Pen::default], body
    checked), the inductive [erase_mode]
    (constructor list checked against [enum EraseMode]). *)

(** [v[i]] as a value; Rust panics unless [i < len] *)
Definition nthM {A} (l : list A) (i : nat) (site : nat) : res A :=
  match nth_error l i with Some x => Ok x | None => Panic site end.

Definition unwrap_or {A} (o : option A) (d : A) : A := match o with Some x => x | None => d end.

(** [(a..b).step_by(k)] *)
Definition range_step (a b k : nat) : list nat :=
  map (fun i => a + k * i) (seq 0 ((b - a + (k - 1)) / k)).

(** [iter().enumerate()] *)
Definition enumerate {A} (l : list A) : list (nat * A) := combine (seq 0 (length l)) l.

(** [slice::partition_point(pred)] by its contract on partitioned input: the length of the prefix
    satisfying [pred] *)
Definition partition_point {A} (f : A -> bool) (l : list A) : nat := length (take_while f l).

(** [slice::binary_search(&x)] by its contract on strictly sorted input: [inl i] = [Ok(i)] if
    [l[i] == x], otherwise [inr i] = [Err(i)] with [i] the insertion point *)
Definition bsearch (x : nat) (l : list nat) : nat + nat :=
  let i := partition_point (fun t => t <? x) l in
  match nth_error l i with
  | Some t => if t =? x then inl i else inr i
  | None => inr i
  end.

"""


def gen_buffns(srcs, hdr):
    """srcs: {'line','buffer','tabs','dirty','cell','pen'} -> tokens; returns (text of BufFns.v, [gallina names])"""
    try:
        check_sources(srcs)
        tr = Tr(srcs)
        for _, tname, fn in ROOTS:
            tr.need(tname, fn)
    except (AttributeError, TypeError, AssertionError, RecursionError) as e:      # never a silent success
        raise TErr("internal error of buf2coq (%s: %s)" % (type(e).__name__, e))
    v = hdr + PRELUDE
    for tname in ("Line", "Buffer", "Tabs", "DirtyLines"):
        v += "(** * %s *)\n\n" % {"Line": "line.rs", "Buffer": "buffer.rs", "Tabs": "tabs.rs",
                                   "DirtyLines": "terminal/dirty_lines.rs"}[tname]
        for key, f in tr.fns.items():
            if key[0] == tname:
                v += dict(tr.out)[f.gname] + "\n"
    return v, [n for n, _ in tr.out]
