"""dump2coq: the DUMP functions of the crate regenerated as Gallina (Gen/DumpFns.v; called from avt2coq.py).

  color.rs     Color::sgr_params                      g_sgr_params     : color -> N -> list N
  pen.rs       Pen::is_default, Pen::dump             g_pen_is_default : pen -> bool, g_pen_dump : pen -> list N
  terminal.rs  SavedCtx::is_default                   g_ctx_is_default : saved_ctx -> bool
               Terminal::primary_buffer / alternate_buffer             g_term_primary_buffer, g_term_alternate_buffer
               Terminal::dump (all 14 steps)          g_term_dump      : term -> res (list N)
  parser.rs    impl Display for Param (fmt)           g_param_fmt      : param -> res (list N)
               Parser::dump                           g_parser_dump    : parser -> res (list N)
  buffer.rs    impl Index<VisualPosition> for Buffer  g_buffer_index   : buffer -> nat -> nat -> res cell
               Buffer::rep_encode_cell_text           g_buffer_rep_encode_cell_text : buffer -> list cell -> res (list N)
               Buffer::dump                           g_buffer_dump    : buffer -> res (list N)
  vt.rs        Vt::dump                               g_vt_dump        : vt -> res (list N)
  NOT translated (checked token for token against a pinned text instead, any edit is a TErr): the iterator
  `Chunks::next` + `Chunks::new` + `Line::chunks` of line.rs (`continue`, `return` inside `for`, `mem::take`): the
  generated code calls the hand-written `g_chunks pred line` of the prelude with the regenerated predicate closure;
  `Param::parts`, `Cell::char`, `Cell::pen`, `impl PartialEq for Tabs` (one-line bodies).

The method bodies are parsed (tokens from rustlex) into a small AST and re-emitted over the model's records.
Semantics of the emitted code:
  * a String is a `list N` of code points; a `char` pushed is its code point; `format!`/`write!` pieces: a literal is
    its code points, `{}` / `{name}` of an integer is `show_nat` / `show_N` (Model/Parser.v), of a char `[c]`, of a
    String the string; `x.to_string()` likewise;
  * the String that a function builds (`let mut seq = ..; seq.push_str(..); ..; seq`, or a `&mut String` /
    `&mut Formatter` parameter) is only ever appended to -- any other use of it is a TErr -- so every statement
    denotes the text it appends (`s1`, `s2`, ..) and a block the concatenation, in statement order;
  * other `let mut` locals are rebound (`let v_x := ..`); an `if`/`match`/`for` that assigns some of them returns
    them next to its text; `for x in it { .. }` is `flat_map` (no assigned locals, no panic), `g_flat_mapM`
    (no assigned locals) or `g_for body it state` (prelude of DumpFns.v);
  * `usize` is `nat`, `u8`/`u16`/`char` are `N`; `a - b` on unsigned emits `guard (b <=? a)` (Rust: panic in debug
    builds); `+` on usize is not checked for overflow; `+` on u8 is checked STATICALLY: the translator keeps an
    upper bound for every u8 expression (match guards `*c < K` narrow, a `u8` parameter is bounded by the
    literals at ALL its call sites in the crate) and raises TErr if a sum may exceed 255, so `N.add` is exact;
    an integer local without annotation counts as usize (rustc infers i32 for `count` in rep_encode_cell_text:
    the only difference would be the `-` guard, which the tie proves dead);
  * `v[i]` emits `nthM v i` (Panic unless i < len), `v[..=n]` `guard (n <? len)` and `firstn (S n) v`,
    `it.next().unwrap()` on a `let mut` iterator `g_next` (Panic on empty), `unreachable!()` Panic;
  * `&&` / `||` / `if` / `match` only charge the guards of the operands / branch actually evaluated;
  * `match` arms are tried in source order (per constructor: the chain of its guarded arms, which must end in an
    unguarded one);
  * all guards of the k-th function carry the site 200+k (the ties are stated up to the site).
Anything outside this fragment raises TErr naming the construct (TRANSLATE-ERROR, exit 2 in avt2coq.py).
"""
from rustlex import char_value, find_fn, find_impl, match_close, num_value, text
from term2coq import TErr

BINOPS = [("||",), ("&&",), ("==", "!=", "<", "<=", ">", ">="), ("+", "-")]
STATES = ["Ground", "Escape", "EscapeIntermediate", "CsiEntry", "CsiParam", "CsiIntermediate", "CsiIgnore",
          "DcsEntry", "DcsParam", "DcsIntermediate", "DcsPassthrough", "DcsIgnore", "OscString", "SosPmApcString"]


# ------------------------------------------------------------------------------ literals

def str_value(tok, where):
    """code points of a Rust string literal token"""
    s, out, i = tok[1:-1], [], 0
    while i < len(s):
        if s[i] != "\\":
            out.append(ord(s[i]))
            i += 1
        elif s.startswith("\\u{", i):
            j = s.index("}", i)
            out.append(int(s[i + 3:j], 16))
            i = j + 1
        elif s.startswith("\\x", i):
            out.append(int(s[i + 2:i + 4], 16))
            i += 4
        elif s[i + 1] in "nrt0\\'\"":
            out.append({"n": 10, "r": 13, "t": 9, "0": 0, "\\": 92, "'": 39, '"': 34}[s[i + 1]])
            i += 2
        else:
            raise TErr("%s: unsupported escape in string literal %s" % (where, tok))
    return out


def fmt_pieces(cps, where):
    """a format string as pieces ('lit', [code points]) | ('pos',) | ('named', x)"""
    out, lit, i = [], [], 0
    while i < len(cps):
        c = chr(cps[i])
        if c in "{}" and i + 1 < len(cps) and chr(cps[i + 1]) == c:
            lit.append(cps[i])
            i += 2
        elif c == "{":
            j = i + 1
            while j < len(cps) and chr(cps[j]) != "}":
                j += 1
            name = "".join(chr(x) for x in cps[i + 1:j])
            if j == len(cps) or not (name == "" or name.isidentifier()):
                raise TErr("%s: unsupported format specification `{%s}`" % (where, name))
            if lit:
                out.append(("lit", lit))
                lit = []
            out.append(("named", name) if name else ("pos",))
            i = j + 1
        elif c == "}":
            raise TErr("%s: unbalanced `}` in a format string" % where)
        else:
            lit.append(cps[i])
            i += 1
    if lit:
        out.append(("lit", lit))
    return out


# ------------------------------------------------------------------------------ parser

class P:
    """Recursive descent over rustlex tokens.  AST nodes are tuples:
       expressions  ('num', n) ('str', [cp]) ('char', cp) ('bool', b) ('var', x) ('self',) ('path', [..]) ('unit',)
                    ('field', e, name) ('index', e, e) ('mcall', recv, name, args, turbofish) ('call', [path], args)
                    ('not', e) ('ref', e) ('deref', e) ('bin', op, a, b) ('paren', e) ('tuple', [e]) ('try', e)
                    ('range', a|None, b|None, inclusive) ('closure', [pat], e) ('format', [piece]) with piece
                    ('lit', [cp]) | ('arg', e);  ('write', e, [piece]) ('unreachable',)
                    ('if', cond, block, block|None) ('match', e, [(pat, guard|None, block)])
       patterns     ('pvar', x) ('pwild',) ('ptuple', [p]) ('pctor', [path], [p]) ('pslice', [p]) ('prest', x)
       statements   ('let', pat, is_mut, e) ('assign', lhs, op, e) ('expr', e) ('for', pat, e, block)
       block        (stmts, tail_expr|None)"""

    def __init__(self, toks, where):
        self.t, self.i, self.where, self.no_struct = toks, 0, where, False

    def err(self, what):
        raise TErr("%s: %s near: %s" % (self.where, what, text(self.t[max(0, self.i - 5):self.i + 8])))

    def peek(self, off=0):
        return self.t[self.i + off] if self.i + off < len(self.t) else (None, None)

    def at(self, txt, off=0):
        k, t = self.peek(off)
        return t == txt and k in ("punct", "id")

    def eat(self, txt=None, kind=None):
        k, t = self.peek()
        if k is None or (txt is not None and t != txt) or (kind is not None and k != kind):
            self.err("expected %s, found %r" % (repr(txt) if txt else kind, t))
        self.i += 1
        return t

    def commas(self, close, item):
        out = []
        while not self.at(close):
            out.append(item())
            if not self.at(close):
                self.eat(",")
        self.eat(close)
        return out

    def path(self):
        p = [self.eat(kind="id")]
        while self.at("::") and self.peek(1)[0] == "id":
            self.eat()
            p.append(self.eat(kind="id"))
        return p

    # -- patterns
    def pat(self):
        if self.at("&"):
            self.eat()
            return self.pat()
        if self.at("mut"):
            self.eat()
        if self.at("("):
            self.eat()
            return ("ptuple", self.commas(")", self.pat))
        if self.at("["):
            self.eat()
            return ("pslice", self.commas("]", self.pat))
        if self.peek()[0] != "id":
            self.err("unsupported pattern")
        p = self.path()
        if p == ["_"]:
            return ("pwild",)
        if self.at("("):
            self.eat()
            return ("pctor", p, self.commas(")", self.pat))
        if self.at("{"):
            self.err("unsupported: struct pattern")
        if len(p) > 1 or p[0][0].isupper():
            return ("pctor", p, [])
        if self.at("@"):
            self.eat()
            self.eat("..")
            return ("prest", p[0])
        return ("pvar", p[0])

    # -- blocks and statements
    def block(self):
        self.eat("{")
        stmts, tail = [], None
        while not self.at("}"):
            if tail is not None:
                self.err("expression without `;` in the middle of a block")
            if self.at("use"):
                self.eat()
                p = self.path()
                if p not in (["State"], ["Ordering"]) or not (self.at("::") and self.at("*", 1) and self.at(";", 2)):
                    self.err("unsupported `use`")
                self.i += 3
                continue
            if self.at("let"):
                self.eat()
                is_mut = self.at("mut")
                p = self.pat()
                if self.at(":"):        # the annotation is not used: the types are inferred from the expression
                    while not self.at("="):
                        self.eat()
                self.eat("=")
                e = self.expr()
                self.eat(";")
                stmts.append(("let", p, is_mut, e))
                continue
            if self.at("for"):
                self.eat()
                p = self.pat()
                self.eat("in")
                e = self.expr(no_struct=True)
                stmts.append(("for", p, e, self.block()))
                continue
            if self.peek()[0] == "id" and self.peek()[1] in ("while", "loop", "break", "continue", "return", "unsafe",
                                                             "fn", "const", "static"):
                self.err("unsupported statement `%s`" % self.peek()[1])
            e = self.expr()
            k, t = self.peek()
            if k == "punct" and t in ("=", "+=", "-="):
                self.eat()
                rhs = self.expr()
                self.eat(";")
                stmts.append(("assign", e, t, rhs))
            elif t == ";":
                self.eat()
                stmts.append(("expr", e))
            elif e[0] in ("if", "match") and not self.at("}"):
                stmts.append(("expr", e))
            elif self.at("}"):
                tail = e
            else:
                self.err("unsupported statement form (after an expression: %r)" % t)
        self.eat("}")
        return (stmts, tail)

    # -- expressions
    def expr(self, no_struct=False):
        old, self.no_struct = self.no_struct, no_struct
        try:
            a = None if self.at("..") or self.at("..=") else self.binary(0)
            if self.at("..") or self.at("..="):
                incl = self.eat() == "..="
                b = None if self.at("]") or self.at(")") else self.binary(0)
                return ("range", a, b, incl)
            return a
        finally:
            self.no_struct = old

    def binary(self, lvl):
        if lvl == len(BINOPS):
            return self.unary()
        a = self.binary(lvl + 1)
        while self.peek()[0] == "punct" and self.peek()[1] in BINOPS[lvl]:
            op = self.eat()
            a = ("bin", op, a, self.binary(lvl + 1))
            if lvl == 2 and self.peek() [0] == "punct" and self.peek()[1] in BINOPS[2]:
                self.err("chained comparison")
        if lvl == 3 and self.peek()[0] == "punct" and self.peek()[1] in ("*", "/", "%", "<<", ">>", "|", "^"):
            self.err("unsupported operator `%s`" % self.peek()[1])
        if self.at("as"):
            self.err("unsupported: `as` cast")
        return a

    def unary(self):
        if self.at("-"):
            self.err("unsupported: unary minus")
        if self.at("!"):
            self.eat()
            return ("not", self.unary())
        if self.at("&"):
            self.eat()
            if self.at("mut"):
                self.eat()
            return ("ref", self.unary())
        if self.at("&&"):
            self.err("unsupported: `&&` reference")
        if self.at("*"):
            self.eat()
            return ("deref", self.unary())
        return self.postfix()

    def args(self):
        self.eat("(")
        return self.commas(")", self.expr)

    def postfix(self):
        e = self.primary()
        while True:
            if self.at("."):
                self.eat()
                k, name = self.peek()
                if k not in ("id", "num"):
                    self.err("unsupported: `.%s`" % name)
                self.eat()
                fish = None
                if self.at("::"):
                    self.eat()
                    self.eat("<")
                    d, j = 1, self.i
                    while d > 0:
                        t = self.eat()
                        d += (t == "<") - (t == ">") - 2 * (t == ">>")      # the lexer reads `>>` as one token
                    fish = text(self.t[j:self.i - 1]) + (" >" if d < 0 or self.t[self.i - 1][1] == ">>" else "")
                if self.at("(") and k == "id":
                    e = ("mcall", e, name, self.args(), fish)
                else:
                    e = ("field", e, name)
            elif self.at("["):
                self.eat()
                ix = self.expr()
                self.eat("]")
                e = ("index", e, ix)
            elif self.at("?"):
                self.eat()
                e = ("try", e)
            else:
                return e

    def fmt_args(self, cps, rest):
        out, rest = [], list(rest)
        for p in fmt_pieces(cps, self.where):
            if p[0] == "lit":
                out.append(p)
            elif p[0] == "named":
                out.append(("arg", ("var", p[1])))
            elif not rest:
                self.err("format string with more `{}` than arguments")
            else:
                out.append(("arg", rest.pop(0)))
        if rest:
            self.err("format string with fewer `{}` than arguments")
        return out

    def primary(self):
        k, t = self.peek()
        if k == "num":
            self.eat()
            if not t.isdigit():
                self.err("unsupported numeric literal " + t)
            return ("num", num_value(t))
        if k == "str":
            self.eat()
            return ("str", str_value(t, self.where))
        if k == "char":
            self.eat()
            return ("char", char_value(t))
        if k == "punct" and t == "(":
            self.eat()
            old, self.no_struct = self.no_struct, False
            es, trailing = [], False
            while not self.at(")"):
                es.append(self.expr())
                trailing = False
                if not self.at(")"):
                    self.eat(",")
                    trailing = True
            self.eat(")")
            self.no_struct = old
            if len(es) == 1 and not trailing:
                return ("paren", es[0])
            return ("tuple", es) if es else ("unit",)
        if k == "punct" and t == "|":
            self.eat()
            ps = self.commas("|", self.pat)
            if self.at("{"):
                self.err("unsupported: closure with a block body")
            return ("closure", ps, self.expr())
        if k != "id":
            self.err("unsupported expression start %r" % t)
        if t in ("true", "false"):
            self.eat()
            return ("bool", t == "true")
        if t == "self":
            self.eat()
            return ("self",)
        if t == "if":
            self.eat()
            if self.at("let"):
                self.eat()
                p = self.pat()
                self.eat("=")
                e = self.expr(no_struct=True)
                b1 = self.block()
                b2 = None
                if self.at("else"):
                    self.eat()
                    if self.at("if"):
                        self.err("unsupported: `else if` after `if let`")
                    b2 = self.block()
                return ("match", e, [(p, None, b1), (("pwild",), None, b2 or ([], None))])
            c = self.expr(no_struct=True)
            b1 = self.block()
            b2 = None
            if self.at("else"):
                self.eat()
                b2 = ([], self.primary()) if self.at("if") else self.block()
            return ("if", c, b1, b2)
        if t == "match":
            self.eat()
            scrut = self.expr(no_struct=True)
            self.eat("{")
            arms = []
            while not self.at("}"):
                p = self.pat()
                if self.at("|"):
                    self.err("unsupported: or-pattern")
                g = None
                if self.at("if"):
                    self.eat()
                    g = self.expr(no_struct=True)
                self.eat("=>")
                if self.at("{"):
                    body = self.block()
                    if self.at(","):
                        self.eat()
                else:
                    body = ([], self.expr())
                    if not self.at("}"):
                        self.eat(",")
                arms.append((p, g, body))
            self.eat("}")
            return ("match", scrut, arms)
        if t in ("let", "mut", "return", "for", "while", "loop", "move", "unsafe", "as", "else", "fn", "in"):
            self.err("unexpected keyword `%s`" % t)
        p = self.path()
        if self.at("::"):
            self.err("unsupported: turbofish on a path")
        if self.at("!"):
            self.eat()
            self.eat("(")
            if p == ["unreachable"]:
                self.eat(")")
                return ("unreachable",)
            if p == ["format"]:
                cps = str_value(self.eat(kind="str"), self.where)
                rest = []
                while self.at(","):
                    self.eat()
                    if not self.at(")"):
                        rest.append(self.expr())
                self.eat(")")
                return ("format", self.fmt_args(cps, rest))
            if p == ["write"]:
                dst = self.expr()
                self.eat(",")
                cps = str_value(self.eat(kind="str"), self.where)
                rest = []
                while self.at(","):
                    self.eat()
                    if not self.at(")"):
                        rest.append(self.expr())
                self.eat(")")
                return ("write", dst, self.fmt_args(cps, rest))
            self.err("unsupported: macro call %s!" % "::".join(p))
        if self.at("("):
            return ("call", p, self.args())
        if self.at("{") and not self.no_struct and p[-1][0].isupper():
            self.err("unsupported: struct literal")
        if len(p) == 1 and not t[0].isupper():
            return ("var", t)
        return ("path", p)


def idents(node, acc=None):
    """the variable names mentioned (syntactically) in an AST node"""
    acc = set() if acc is None else acc
    if isinstance(node, tuple):
        if len(node) == 2 and node[0] == "var":
            acc.add(node[1])
        for c in node:
            idents(c, acc)
    elif isinstance(node, list):
        for c in node:
            idents(c, acc)
    return acc


# ------------------------------------------------------------------------------ the model's types

# Rust struct -> (model type, {rust field: (projection, type)}); every listed field is checked against the struct
# declaration (name and declared type text) -- see check_structs
STRUCTS = {
    "Terminal": ("term", {
        "cols": ("cols", "nat", "usize"), "rows": ("rows", "nat", "usize"),
        "buffer": ("buf", "buffer", "Buffer"), "other_buffer": ("other", "buffer", "Buffer"),
        "active_buffer_type": ("active", "btype", "BufferType"), "cursor": (None, "cursor", "Cursor"),
        "pen": ("tpen", "pen", "Pen"), "charsets": (None, "charsets", "[ Charset ; 2 ]"),
        "active_charset": ("acs", "nat", "usize"), "tabs": ("tabs", ("list", "nat"), "Tabs"),
        "insert_mode": ("ins", "bool", "bool"), "origin_mode": ("org", "bool", "bool"),
        "auto_wrap_mode": ("awm", "bool", "bool"), "new_line_mode": ("nlm", "bool", "bool"),
        "cursor_keys_mode": (None, "ckm", "CursorKeysMode"),
        "top_margin": ("top", "nat", "usize"), "bottom_margin": ("bot", "nat", "usize"),
        "saved_ctx": ("sctx", "ctx", "SavedCtx"), "alternate_saved_ctx": ("asctx", "ctx", "SavedCtx")}),
    "Cursor": ("cursor", {"col": ("cur_col", "nat", "usize"), "row": ("cur_row", "nat", "usize"),
                          "visible": ("cur_vis", "bool", "bool")}),
    "SavedCtx": ("ctx", {"cursor_col": ("sc_col", "nat", "usize"), "cursor_row": ("sc_row", "nat", "usize"),
                         "pen": ("sc_pen", "pen", "Pen"), "origin_mode": ("sc_origin", "bool", "bool"),
                         "auto_wrap_mode": ("sc_awm", "bool", "bool")}),
    "Pen": ("pen", {"foreground": ("foreground", ("option", "color"), "Option < Color >"),
                    "background": ("background", ("option", "color"), "Option < Color >"),
                    "intensity": ("intensity", "inten", "Intensity"), "attrs": ("attrs", "u8", "u8")}),
    "Buffer": ("buffer", {"lines": ("lines", ("list", "line"), "Vec < Line >"), "cols": ("bcols", "nat", "usize"),
                          "rows": ("brows", "nat", "usize")}),
    "Line": ("line", {"cells": ("cells", ("list", "cell"), "Vec < Cell >"), "wrapped": ("wrapped", "bool", "bool")}),
    "Parser": ("parser", {"state": ("pst", "pstate", "State"), "params": ("params", ("list", "param"), "[ Param ; PARAMS_LEN ]"),
                          "cur_param": ("cur_param", "nat", "usize"),
                          "intermediate": ("inter", ("option", "char"), "Option < char >")}),
    "Param": ("param", {"cur_part": ("cur_part", "nat", "usize"), "parts": ("parts", ("list", "u16"), "[ u16 ; MAX_PARAM_LEN ]")}),
    "Vt": ("vt", {"parser": ("vparser", "parser", "Parser"), "terminal": ("vterm", "term", "Terminal")}),
}
STRUCT_FILE = {"Terminal": "terminal", "Cursor": "cursor", "SavedCtx": "terminal", "Pen": "pen", "Buffer": "buffer",
               "Line": "line", "Parser": "parser", "Param": "parser", "Vt": "vt"}
FIELDS = {mty: fs for mty, fs in STRUCTS.values()}
# Rust enum -> (model type, [(rust variant, model constructor, [payload types])]); checked against the declaration
ENUMS = {
    "BufferType": ("btype", [("Primary", "Primary", []), ("Alternate", "Alternate", [])]),
    "Intensity": ("inten", [("Normal", "Normal", []), ("Bold", "Bold", []), ("Faint", "Faint", [])]),
    "Charset": ("charset", [("Ascii", "CsAscii", []), ("Drawing", "CsDrawing", [])]),
    "State": ("pstate", [(s, s, []) for s in STATES]),
    "Color": ("color", [("Indexed", "Indexed", ["u8"]), ("RGB", "RGB", ["rgb8"])]),
    # the model keeps `cursor_keys_mode == Application` as a bool
    "CursorKeysMode": ("ckm", [("Normal", "false", []), ("Application", "true", [])]),
}
ENUM_FILE = {"BufferType": "terminal", "Intensity": "pen", "Charset": "charset", "State": "parser", "Color": "color",
             "CursorKeysMode": "terminal"}
CTORS = {mty: vs for mty, vs in ENUMS.values()}
CTORS["ordering"] = [("Less", "Lt", []), ("Greater", "Gt", []), ("Equal", "Eq", [])]      # std::cmp::Ordering
ENUM_OF = {mty: r for r, (mty, _) in ENUMS.items()}
ENUM_OF["ordering"] = "Ordering"
# one-line bodies / impls used as primitives: (file, impl header, fn, exact body text)
PINNED = [
    ("cell", ["Cell"], "char", "self . 0"),
    ("cell", ["Cell"], "pen", "& self . 1"),
    ("parser", ["Param"], "parts", "& self . parts [ ..= self . cur_part ]"),
    ("tabs", ["PartialEq", "for", "Tabs"], "eq", "self . 0 == other . 0"),
    ("tabs", ["<", "'a", ">", "IntoIterator", "for", "&", "'a", "Tabs"], "into_iter", "self . 0 . iter ( )"),
    ("line", ["Index", "<", "usize", ">", "for", "Line"], "index", "& self . cells [ index ]"),
    ("line", ["Line"], "chunks", "Chunks :: new ( self . cells . iter ( ) , predicate )"),
    ("line", ["<", "'a", ",", "I", ":", "Iterator", "<", "Item", "=", "&", "'a", "Cell", ">", ",", "F", ":", "Fn", "(",
              "&", "Cell", ",", "&", "Cell", ")", "->", "bool", ">", "Chunks", "<", "'a", ",", "I", ",", "F", ">"], "new",
     "Self { iter , predicate , cells : Vec :: new ( ) , }"),
    ("line", ["<", "'a", ",", "I", ":", "Iterator", "<", "Item", "=", "&", "'a", "Cell", ">", ",", "F", ":", "Fn", "(",
              "&", "Cell", ",", "&", "Cell", ")", "->", "bool", ">", "Iterator", "for", "Chunks", "<", "'a", ",", "I", ",",
              "F", ">"], "next",
     "for cell in self . iter . by_ref ( ) { if self . cells . is_empty ( ) { self . cells . push ( * cell ) ; continue ; } "
     "if ( self . predicate ) ( self . cells . last ( ) . unwrap ( ) , cell ) { let cells = std :: mem :: take ( & mut "
     "self . cells ) ; self . cells . push ( * cell ) ; return Some ( cells ) ; } else { self . cells . push ( * cell ) ; } } "
     "if self . cells . is_empty ( ) { None } else { Some ( std :: mem :: take ( & mut self . cells ) ) }"),
]
# the derives the `==` translations rely on
DERIVES = [("pen", "struct", "Pen", "PartialEq"), ("pen", "enum", "Intensity", "PartialEq"),
           ("color", "enum", "Color", "PartialEq"), ("terminal", "enum", "BufferType", "PartialEq"),
           ("terminal", "enum", "CursorKeysMode", "PartialEq"), ("charset", "enum", "Charset", "PartialEq")]

COQ_TY = {"nat": "nat", "u8": "N", "u16": "N", "char": "N", "string": "list N", "bool": "bool", "unit": "unit",
          "ctx": "saved_ctx", "rgb8": None}
INTS = ("nat", "u8", "u16")


def cty(t):
    if isinstance(t, str):
        c = COQ_TY.get(t, t)
        if c is None:
            raise TErr("no Coq type for %s" % t)
        return c
    if t[0] in ("list", "option"):
        a = cty(t[1])
        return "%s %s" % (t[0], "(%s)" % a if " " in a else a)
    if t[0] == "tuple":
        return "(%s)" % " * ".join(cty(x) for x in t[1])
    raise TErr("no Coq type for %r" % (t,))


def lit(cps):
    return "[%s]" % "; ".join(str(c) for c in cps)


def show(cps):
    """a code-point list as a readable comment"""
    return "".join(chr(c) if 32 <= c < 127 and chr(c) not in "*()\"" else "\\u{%x}" % c for c in cps)


def paren(s):
    return s if s.isidentifier() or (s[0] in "([" and balanced_one(s)) else "(%s)" % s


def balanced_one(s):
    """is s a single bracketed group?"""
    d = 0
    for i, c in enumerate(s):
        d += (c in "([") - (c in ")]")
        if d == 0:
            return i == len(s) - 1
    return False


def ind(s, n):
    """indent by n (n < 0: remove -n leading blanks)"""
    if n < 0:
        return "\n".join(l[-n:] if l.startswith(" " * -n) else l for l in s.split("\n"))
    pad = " " * n
    return "\n".join(pad + l if l else l for l in s.split("\n"))


def tup(xs):
    return xs[0] if len(xs) == 1 else "(%s)" % ", ".join(xs)


def tpat(xs):
    return xs[0] if len(xs) == 1 else "'(%s)" % ", ".join(xs)


def cat(pieces):
    return " ++ ".join(pieces) if pieces else "[]"


# ------------------------------------------------------------------------------ emitter

class Sink:
    """the bindings of one block, in order"""

    def __init__(self):
        self.lines, self.mon = [], False

    def let(self, names, e):
        if [e] != names:
            self.lines.append("let %s := %s in" % (tpat(names), e) if "\n" not in e else
                              "let %s :=\n%s in" % (tpat(names), ind(e, 2)))

    def bind(self, names, m):
        self.lines.append("%s <- %s ;;" % (tpat(names), m) if "\n" not in m else
                          "%s <- (\n%s) ;;" % (tpat(names), ind(m, 2)))
        self.mon = True

    def put(self, names, e, mon):
        (self.bind if mon else self.let)(names, e)

    def render(self, result, mon):
        """the block as one Coq expression of type T (mon = False) or res T"""
        if self.mon and not mon:
            raise TErr("internal: a block with guards rendered as a pure expression")
        lines = list(self.lines)
        if lines and not mon and lines[-1].startswith("let %s :=" % result) and lines[-1].endswith(" in"):
            # `let x := e in x`  ->  `e`
            e = lines.pop()[len("let %s :=" % result):-len(" in")]
            return "\n".join(lines + [e.strip() if not e.startswith("\n") else ind(e[1:], -2)])
        if lines and mon and lines[-1].startswith("%s <- " % result) and lines[-1].endswith(" ;;"):
            # `x <- m ;; Ok x`  ->  `m`
            m = lines.pop()[len("%s <- " % result):-len(" ;;")]
            return "\n".join(lines + [m if not m.startswith("(\n") else ind(m[2:-1], -2)])
        return "\n".join(lines + ["Ok %s" % paren(result) if mon else result])


class Blk:
    def __init__(self, sink, pieces, assigned, tail):
        self.sink, self.pieces, self.assigned, self.tail = sink, pieces, assigned, tail


class Fn:
    """the translation of one function"""

    def __init__(self, tr, where, site):
        self.tr, self.where, self.site = tr, where, site
        self.n_tmp = self.n_piece = 0
        self.acc = None       # the Rust name of the String under construction

    def err(self, what):
        raise TErr("%s: %s" % (self.where, what))

    def tmp(self):
        self.n_tmp += 1
        return "t%d" % self.n_tmp

    def piece(self):
        self.n_piece += 1
        return "s%d" % self.n_piece

    def guard(self, sink, cond, why):
        sink.lines.append("_ <- guard %s %d ;;  (* %s *)" % (cond, self.site, why))
        sink.mon = True

    # ---------------------------------------------------------------- expressions: (coq, type, upper bound | None)
    def ex(self, e, env, sink, want=None):
        k = e[0]
        if k == "num":
            ty = want if want in INTS else "nat"
            if ty != "nat" and e[1] > (255 if ty == "u8" else 65535):
                self.err("literal %d exceeds %s" % (e[1], ty))
            return ("%d%%%s" % (e[1], "nat" if ty == "nat" else "N"), ty, e[1])
        if k == "str":
            return ("%s (* \"%s\" *)" % (lit(e[1]), show(e[1])) if e[1] else "[]", "string", None)
        if k == "char":
            return ("%d%%N" % e[1], "char", None)
        if k == "bool":
            return ("true" if e[1] else "false", "bool", None)
        if k == "unit":
            return ("tt", "unit", None)
        if k == "self":
            if "self" not in env:
                self.err("`self` in a function without receiver")
            return env["self"]
        if k == "var":
            if e[1] == self.acc:
                self.err("the String under construction `%s` is used other than by push / push_str" % e[1])
            if e[1] not in env:
                self.err("unknown name `%s`" % e[1])
            return env[e[1]]
        if k in ("paren", "ref", "deref"):
            return self.ex(e[1], env, sink, want)
        if k == "try":
            self.err("unsupported: `?` on a value")
        if k == "not":
            c, ty, _ = self.ex(e[1], env, sink)
            if ty != "bool":
                self.err("`!` on a value of type %s" % (ty,))
            return ("negb %s" % paren(c), "bool", None)
        if k == "tuple":
            vs = [self.ex(x, env, sink) for x in e[1]]
            return ("(%s)" % ", ".join(v[0] for v in vs), ("tuple", [v[1] for v in vs]), None)
        if k == "field":
            return self.field(e, env, sink)
        if k == "index":
            return self.index(e, env, sink)
        if k == "bin":
            return self.binop(e, env, sink, want)
        if k == "format":
            return (self.pieces(e[1], env, sink), "string", None)
        if k == "range":
            if e[1] is None or e[2] is None or e[3]:
                self.err("unsupported range form outside an index")
            a, b = self.ex(e[1], env, sink), self.ex(e[2], env, sink)
            if a[1] != "nat" or b[1] != "nat":
                self.err("range over %s" % (a[1],))
            return ("seq %s (%s - %s)%%nat" % (paren(a[0]), b[0], a[0]), ("list", "nat"), None)
        if k == "path":
            return self.path_value(e[1], want)
        if k == "call":
            return self.call(e, env, sink)
        if k == "mcall":
            return self.mcall(e, env, sink)
        if k in ("if", "match"):
            ps = []
            r = self.compound(e, env, sink, None, ps)
            if r is None or ps:
                self.err("`%s` used as an expression has no value / appends text" % k)
            return r
        if k == "unreachable":
            self.err("unsupported: unreachable!() as a value")
        self.err("unsupported expression form `%s`" % k)

    def pieces(self, ps, env, sink):
        out = []
        for p in ps:
            if p[0] == "lit":
                out.append("%s (* \"%s\" *)" % (lit(p[1]), show(p[1])))
            else:
                out.append(self.display(self.ex(p[1], env, sink)))
        return cat(out)

    def display(self, v):
        c, ty, _ = v
        if ty == "nat":
            return "show_nat %s" % paren(c)
        if ty in ("u8", "u16"):
            return "show_N %s" % paren(c)
        if ty == "char":
            return "[%s]" % c
        if ty == "string":
            return c if "++" not in c else "(%s)" % c
        self.err("unsupported: Display of a value of type %s" % (ty,))

    def path_value(self, p, want):
        for mty, vs in CTORS.items():
            for rv, mc, payload in vs:
                if p == [ENUM_OF[mty], rv] or (p == [rv] and mty in ("pstate", "color")):
                    if payload:
                        self.err("constructor %s without arguments" % rv)
                    return (mc, mty, None)
        self.err("unknown path `%s`" % "::".join(p))

    def field(self, e, env, sink):
        c, ty, _ = self.ex(e[1], env, sink)
        if ty == "rgb8":            # the model keeps the three components in the constructor
            if e[2] not in ("r", "g", "b"):
                self.err("unknown field `%s` of RGB8" % e[2])
            return ("%s_%s" % (c, e[2]), "u8", 255)
        if ty == "cursor":
            c, ty = c[len("cursor "):], "cursor"
        fs = FIELDS.get(ty if isinstance(ty, str) else None)
        if fs is None or e[2] not in fs:
            self.err("unknown field `%s` of a value of type %s" % (e[2], ty))
        proj, fty, _ = fs[e[2]]
        if proj is None:            # pseudo values: resolved by the next projection / index / comparison
            return ("%s %s" % (e[2], c), fty, None)
        return ("%s %s" % (proj, paren(c)), fty, {"u8": 255, "u16": 65535}.get(fty))

    def index(self, e, env, sink):
        base, ix = e[1], e[2]
        v = self.ex(base, env, sink)
        if v[1] == "charsets":
            if ix[0] != "num" or ix[1] not in (0, 1):
                self.err("self.charsets[..] with an index that is not the literal 0 or 1")
            return ("cs%d %s" % (ix[1], paren(v[0][len("charsets "):])), "charset", None)
        if v[1] == "buffer":
            if ix[0] != "tuple" or len(ix[1]) != 2:
                self.err("unsupported index on a Buffer")
            a, b = self.ex(ix[1][0], env, sink), self.ex(ix[1][1], env, sink)
            if a[1] != "nat" or b[1] != "nat":
                self.err("Buffer index of type %s" % (a[1],))
            self.tr.need("buffer", "index")
            t = self.tmp()
            sink.bind([t], "g_buffer_index %s %s %s" % (paren(v[0]), paren(a[0]), paren(b[0])))
            return (t, "cell", None)
        if v[1] == "line":          # impl Index<usize> for Line (pinned): &self.cells[index]
            v = ("cells %s" % paren(v[0]), ("list", "cell"), None)
        if not isinstance(v[1], tuple) or v[1][0] != "list":
            self.err("index on a value of type %s" % (v[1],))
        if ix[0] == "range":
            if ix[1] is not None or ix[2] is None or not ix[3]:
                self.err("unsupported slice form (only `[..=n]`)")
            n = self.ex(ix[2], env, sink)
            if n[1] != "nat":
                self.err("slice bound of type %s" % (n[1],))
            self.guard(sink, "(%s <? length %s)%%nat" % (n[0], paren(v[0])), "[..=n]")
            return ("firstn (S %s) %s" % (paren(n[0]), paren(v[0])), v[1], None)
        i = self.ex(ix, env, sink)
        if i[1] != "nat":
            self.err("index of type %s" % (i[1],))
        t = self.tmp()
        sink.bind([t], "nthM %s %s %d" % (paren(v[0]), paren(i[0]), self.site))
        return (t, v[1][1], None)

    def binop(self, e, env, sink, want):
        op = e[1]
        if op in ("&&", "||"):
            a = self.ex(e[2], env, sink)
            rs = Sink()
            b = self.ex(e[3], env, rs)
            if a[1] != "bool" or b[1] != "bool":
                self.err("`%s` on non-boolean operands" % op)
            if not rs.lines:
                return ("(%s %s %s)" % (a[0], op, b[0]), "bool", None)
            # the right operand is only evaluated (and its guards only charged) when needed
            t = self.tmp()
            short = "Ok true" if op == "||" else "Ok false"
            rhs = rs.render(b[0], True)
            sink.bind([t], "if %s then %s else\n%s" % ((a[0], short, ind(rhs, 2)) if op == "||" else
                                                       ("negb %s" % paren(a[0]), short, ind(rhs, 2))))
            return (t, "bool", None)
        # comparisons against an enum constant
        if op in ("==", "!=") and e[3][0] == "path":
            a = self.ex(e[2], env, sink)
            b = self.path_value(e[3][1], a[1])
            if a[1] != b[1]:
                self.err("comparison of %s with %s" % (a[1], b[1]))
            if a[1] == "ckm":       # the model's bool IS `== Application`
                c = a[0][len("cursor_keys_mode "):]
                c = "ckm %s" % paren(c)
                pos = (b[0] == "true") == (op == "==")
                return (c if pos else "negb (%s)" % c, "bool", None)
            c = "match %s with %s => true | _ => false end" % (a[0], b[0])
            return (c if op == "==" else "negb (%s)" % c, "bool", None)
        a = self.ex(e[2], env, sink, want)
        b = self.ex(e[3], env, sink, a[1] if a[1] in INTS else want)
        if e[2][0] == "num" and b[1] in INTS and b[1] != a[1]:
            a = self.ex(e[2], env, sink, b[1])
        if a[1] != b[1]:
            self.err("`%s` between %s and %s" % (op, a[1], b[1]))
        ty = a[1]
        sc = "nat" if ty == "nat" else "N"
        x, y = (strip_scope(a[0], sc), strip_scope(b[0], sc))
        if op in ("+", "-"):
            if ty not in INTS:
                self.err("`%s` at type %s" % (op, ty))
            if op == "-":
                self.guard(sink, "(%s <=? %s)%%%s" % (y, x, sc), "%s - %s" % (x, y))
                return ("(%s - %s)%%%s" % (x, y, sc), ty, a[2])
            hi = None if a[2] is None or b[2] is None else a[2] + b[2]
            if ty != "nat":
                top = 255 if ty == "u8" else 65535
                if hi is None or hi > top:
                    self.err("`%s + %s` may overflow %s (bounds %s + %s)" % (x, y, ty, a[2], b[2]))
            return ("(%s + %s)%%%s" % (x, y, sc), ty, hi)
        if op in ("<", "<=", ">", ">="):
            if ty not in INTS and ty != "char":
                self.err("`%s` at type %s" % (op, ty))
            if op in (">", ">="):
                x, y = y, x
            return ("(%s %s %s)%%%s" % (x, "<?" if op in ("<", ">") else "<=?", y, sc), "bool", None)
        if ty in INTS or ty == "char":
            c = "(%s =? %s)%%%s" % (x, y, sc)
        elif ty == "pen":
            c = "pen_eqb %s %s" % (paren(a[0]), paren(b[0]))
        elif ty == ("list", "nat"):
            c = "list_eqb Nat.eqb %s %s" % (paren(a[0]), paren(b[0]))
        elif ty == "bool":
            c = "Bool.eqb %s %s" % (paren(a[0]), paren(b[0]))
        else:
            self.err("`%s` at type %s" % (op, ty))
        return (c if op == "==" else "negb (%s)" % c, "bool", None)

    def call(self, e, env, sink):
        p, args = e[1], e[2]
        if p == ["String", "new"] and not args:
            return ("[]", "string", None)
        if p == ["Pen", "default"] and not args:
            return ("g_pen_default", "pen", None)
        if p == ["Tabs", "new"] and len(args) == 1:
            a = self.ex(args[0], env, sink)
            if a[1] != "nat":
                self.err("Tabs::new of a %s" % (a[1],))
            t = self.tmp()
            sink.bind([t], "g_tabs_new %s" % paren(a[0]))
            return (t, ("list", "nat"), None)
        self.err("unsupported call `%s(..)`" % "::".join(p))

    def closure(self, e, arg_tys, env):
        """a pure closure as `fun .. => ..`; returns (coq, result type)"""
        if e[0] != "closure" or len(e[1]) != len(arg_tys):
            self.err("expected a closure with %d parameter(s)" % len(arg_tys))
        env2, names = dict(env), []
        for p, ty in zip(e[1], arg_tys):
            if p[0] != "pvar":
                self.err("unsupported closure parameter pattern")
            if p[1] in self.muts or p[1] == self.acc:
                self.err("a closure parameter shadows the mutable local `%s`" % p[1])
            names.append("v_" + p[1])
            env2[p[1]] = ("v_" + p[1], ty, None)
        s = Sink()
        r = self.ex(e[2], env2, s)
        return names, s, r

    def mcall(self, e, env, sink):
        recv, name, args, fish = e[1], e[2], e[3], e[4]
        # it.next().unwrap() on a `let mut` iterator variable
        if name == "unwrap" and recv[0] == "mcall" and recv[2] == "next" and recv[1][0] == "var" and not args:
            x = recv[1][1]
            v = env.get(x)
            if v is None or not isinstance(v[1], tuple) or v[1][0] != "list" or x not in self.muts:
                self.err("`.next()` on something that is not a `let mut` iterator")
            t = self.tmp()
            sink.bind([t, v[0]], "g_next %s %d" % (v[0], self.site))
            self.assigned.add(x)
            return (t, v[1][1], None)
        r = self.ex(recv, env, sink)
        c, ty = r[0], r[1]
        nargs = len(args)
        islist = isinstance(ty, tuple) and ty[0] == "list"
        if islist and name in ("iter", "into_iter") and not nargs:
            return r
        if islist and name == "collect" and not nargs:
            if fish == "String" and ty[1] == "char":
                return (c, "string", None)
            if fish == "Vec < _ >":
                return r
            self.err("unsupported collect::<%s>() of %s" % (fish, ty))
        if islist and name == "enumerate" and not nargs:
            return ("enumerate %s" % paren(c), ("list", ("tuple", ["nat", ty[1]])), None)
        if islist and name == "take" and nargs == 1:
            n = self.ex(args[0], env, sink)
            if n[1] != "nat":
                self.err("take(%s)" % (n[1],))
            return ("firstn %s %s" % (paren(n[0]), paren(c)), ty, None)
        if islist and name == "map" and nargs == 1:
            names, s, b = self.closure(args[0], [ty[1]], env)
            body = s.render(b[0], s.mon)
            f = "fun %s =>%s" % (" ".join(names), "\n" + ind(body, 2) if "\n" in body else " " + body)
            if not s.mon:
                return ("map (%s) %s" % (f, paren(c)), ("list", b[1]), None)
            t = self.tmp()
            sink.bind([t], "g_mapM (%s) %s" % (f, paren(c)))
            return (t, ("list", b[1]), None)
        if ty == ("list", "string") and name == "join" and nargs == 1:
            sep = self.ex(args[0], env, sink)
            if sep[1] != "string":
                self.err("join(%s)" % (sep[1],))
            return ("g_join %s %s" % (paren(sep[0]), paren(c)), "string", None)
        if isinstance(ty, tuple) and ty[0] == "option":
            if name == "is_none" and not nargs:
                return ("match %s with None => true | Some _ => false end" % c, "bool", None)
            if name == "is_some" and not nargs:
                return ("match %s with None => false | Some _ => true end" % c, "bool", None)
            if name == "iter" and not nargs:
                return ("match %s with Some x => [x] | None => [] end" % c, ("list", ty[1]), None)
        if ty == "string" and name in ("to_owned", "to_string") and not nargs:
            return r
        if name == "to_string" and not nargs:
            if ty == "param":
                self.tr.need("param", "fmt")
                t = self.tmp()
                sink.bind([t], "g_param_fmt %s" % paren(c))
                return (t, "string", None)
            return (self.display(r), "string", None)
        if ty == "nat" and name == "cmp" and nargs == 1:
            b = self.ex(args[0], env, sink)
            if b[1] != "nat":
                self.err("cmp with a %s" % (b[1],))
            return ("Nat.compare %s %s" % (paren(c), paren(b[0])), "ordering", None)
        if ty == "cell" and not nargs and name in ("char", "pen"):
            return (("ch %s" if name == "char" else "cpen %s") % paren(c), "char" if name == "char" else "pen", None)
        if ty == "pen" and not nargs and name in ("is_italic", "is_underline", "is_blink", "is_inverse",
                                                  "is_strikethrough"):
            return ("g_%s %s" % (name, paren(c)), "bool", None)     # Gen/SgrFns.v
        if ty == "param" and name == "parts" and not nargs:
            self.guard(sink, "(cur_part %s <? length (parts %s))%%nat" % (paren(c), paren(c)), "Param::parts: [..=cur_part]")
            return ("firstn (S (cur_part %s)) (parts %s)" % (paren(c), paren(c)), ("list", "u16"), None)
        if ty == "line" and name == "is_blank" and not nargs:
            t = self.tmp()
            sink.bind([t], "g_line_is_blank %s" % paren(c))         # Gen/BufFns.v
            return (t, "bool", None)
        if ty == "line" and name == "chunks" and nargs == 1:
            names, s, b = self.closure(args[0], ["cell", "cell"], env)
            if s.lines or b[1] != "bool":
                self.err("the predicate of Line::chunks is not a pure boolean closure")
            return ("g_chunks (fun %s => %s) %s" % (" ".join(names), b[0], paren(c)), ("list", ("list", "cell")), None)
        if ty == "buffer" and name == "view" and not nargs:
            t = self.tmp()
            sink.bind([t], "g_buffer_view %s" % paren(c))           # Gen/BufFns.v
            return (t, ("list", "line"), None)
        # methods translated here
        key = (ty if isinstance(ty, str) else None, name)
        if key in self.tr.sigs:
            mty, gname, params, rty, mon = self.tr.need(*key)
            if len(params) != nargs:
                self.err("%s::%s called with %d argument(s)" % (ty, name, nargs))
            cs = [paren(c)]
            for (pn, pty), a in zip(params, args):
                v = self.ex(a, env, sink, pty)
                if v[1] != pty:
                    self.err("argument `%s` of %s: %s, expected %s" % (pn, name, v[1], pty))
                if pty == "u8":
                    if v[2] is None:
                        self.err("u8 argument of %s without a static bound" % name)
                    self.tr.arg_bound[(key, pn)] = max(self.tr.arg_bound.get((key, pn), 0), v[2])
                cs.append(paren(v[0]))
            call = "%s %s" % (gname, " ".join(cs))
            if not mon:
                return (call, rty, None)
            t = self.tmp()
            sink.bind([t], call)
            return (t, rty, None)
        self.err("unsupported method `.%s(..)` on a value of type %s" % (name, ty))

    # ---------------------------------------------------------------- statements
    def block(self, blk, env, live):
        """translate a block in a new scope; returns Blk (the names in .assigned are those of OUTER mutable locals)"""
        stmts, tail = blk
        env = dict(env)
        outer_assigned, self.assigned = self.assigned, set()
        declared = set()
        sink, pieces, tailv = Sink(), [], None
        for n, st in enumerate(stmts):
            rest = (stmts[n + 1:], tail)
            k = st[0]
            if k == "let":
                self.let(st, env, sink, pieces, declared)
            elif k == "assign":
                self.assign(st, env, sink)
            elif k == "for":
                self.for_(st, env, sink, None if live is None else live | idents(rest), pieces)
            elif k == "expr":
                self.stmt_expr(st[1], env, sink, None if live is None else live | idents(rest), pieces)
        if tail is not None:
            if tail == ("var", self.acc) and self.acc in declared:
                tailv = (cat(pieces), "string", None)       # the function's result: everything appended
                pieces = []
            elif tail[0] in ("if", "match"):
                tailv = self.compound(tail, env, sink, live, pieces)
            elif tail[0] == "write" or (tail[0] == "call" and tail[1] == ["Ok"]) or tail[0] == "unit":
                self.stmt_expr(tail, env, sink, live, pieces)
            else:
                tailv = self.ex(tail, env, sink)
        assigned = {x for x in self.assigned if x not in declared}
        self.assigned = outer_assigned | assigned
        return Blk(sink, pieces, assigned, tailv)

    def let(self, st, env, sink, pieces, declared):
        _, p, is_mut, e = st
        if p[0] == "ptuple" and e[0] == "match":
            # let (a, b) = match .. { .. => (x, y), .. }
            v = self.ex(e, env, sink)
        else:
            v = self.ex(e, env, sink)
        names = []

        def bind_pat(p, ty):
            if p[0] == "pvar":
                if p[1] in env and p[1] in self.muts:
                    self.err("`let %s` shadows a mutable local" % p[1])
                names.append("v_" + p[1])
                env[p[1]] = ("v_" + p[1], ty, v[2] if ty in INTS else None)
                declared.add(p[1])
                if is_mut:
                    self.muts.add(p[1])
                    self.order(p[1])
                return "v_" + p[1]
            if p[0] == "ptuple" and isinstance(ty, tuple) and ty[0] == "tuple" and len(ty[1]) == len(p[1]):
                return "(%s)" % ", ".join(bind_pat(q, t) for q, t in zip(p[1], ty[1]))
            self.err("unsupported `let` pattern")

        if p[0] == "pvar" and is_mut and v[1] == "string" and self.acc is None and not self.ret_string_param:
            # the String under construction: its initial value is the first piece
            self.acc = p[1]
            declared.add(p[1])
            if v[0] != "[]":
                s = self.piece()
                sink.let([s], v[0])
                pieces.append(s)
            return
        if p[0] == "pvar" and is_mut and v[1] == "string":
            self.err("a second mutable String `%s`" % p[1])
        c = bind_pat(p, v[1])
        if c != v[0]:
            sink.lines.append("let %s := %s in" % (c if p[0] == "pvar" else "'" + c, v[0]))

    def assign(self, st, env, sink):
        _, lhs, op, rhs = st
        if lhs[0] != "var" or lhs[1] not in env or lhs[1] not in self.muts:
            self.err("unsupported assignment target")
        x = lhs[1]
        cur = env[x]
        if op == "=":
            v = self.ex(rhs, env, sink, cur[1])
        else:
            v = self.binop(("bin", op[0], lhs, rhs), env, sink, cur[1])
        if v[1] != cur[1]:
            self.err("assignment of a %s to `%s` of type %s" % (v[1], x, cur[1]))
        sink.let([cur[0]], v[0])
        env[x] = (cur[0], cur[1], None)
        self.assigned.add(x)

    def is_acc(self, e):
        while e[0] in ("ref", "paren"):
            e = e[1]
        return e == ("var", self.acc)

    def stmt_expr(self, e, env, sink, live, pieces):
        if e[0] == "try":
            e = e[1]
            if e[0] != "write":
                self.err("unsupported: `?` on something that is not write!(..)")
        if e[0] in ("if", "match"):
            v = self.compound(e, env, sink, live, pieces)
            if v is not None and v[1] != "unit":
                self.err("the value of an `%s` statement is dropped" % e[0])
            return
        if e[0] == "unit" or (e[0] == "call" and e[1] == ["Ok"] and e[2] == [("unit",)]):
            return
        if e[0] == "unreachable":
            sink.bind(["_"], "(Panic %d : res unit)" % self.site)
            return
        if e[0] == "write" and self.is_acc(e[1]):
            s = self.piece()
            sink.let([s], self.pieces(e[2], env, sink))
            pieces.append(s)
            return
        if e[0] == "mcall" and self.is_acc(e[1]) and e[2] in ("push_str", "push") and len(e[3]) == 1:
            v = self.ex(e[3][0], env, sink)
            if (e[2], v[1]) not in (("push_str", "string"), ("push", "char")):
                self.err("%s of a %s" % (e[2], v[1]))
            s = self.piece()
            sink.let([s], v[0] if e[2] == "push_str" else "[%s]" % v[0])
            pieces.append(s)
            return
        if e[0] == "mcall" and e[3] and self.is_acc(e[3][-1]):
            # a method that appends to the String passed as its last argument
            r = self.ex(e[1], env, sink)
            key = (r[1], e[2])
            if key not in self.tr.sigs or not self.tr.sigs[key][5]:
                self.err("unsupported call `.%s(.., &mut %s)`" % (e[2], self.acc))
            mty, gname, params, rty, mon = self.tr.need(*key)
            if len(params) != len(e[3]) - 1:
                self.err("%s called with %d argument(s)" % (e[2], len(e[3])))
            cs = [paren(r[0])]
            for (pn, pty), a in zip(params, e[3][:-1]):
                v = self.ex(a, env, sink, pty)
                if v[1] != pty:
                    self.err("argument `%s` of %s: %s, expected %s" % (pn, e[2], v[1], pty))
                cs.append(paren(v[0]))
            s = self.piece()
            sink.put([s], "%s %s" % (gname, " ".join(cs)), mon)
            pieces.append(s)
            return
        self.err("unsupported statement `%s ..`" % (e[0] if e[0] != "mcall" else "." + e[2]))

    def branch_result(self, b, has_piece, A, env):
        comps = ([cat(b.pieces)] if has_piece else []) + [env[a][0] for a in A]
        if b.tail is not None and b.tail[1] != "unit":
            comps.append(b.tail[0])
        return tup(comps) if comps else "tt"

    def join_branches(self, bs, env, sink, live, pieces, mk):
        """bs: translated branches; mk(rendered branches) -> the Coq conditional.  Binds the result in `sink`."""
        A = {a for b in bs for a in b.assigned}
        A = sorted(A if live is None else A & (live | self.loop_live), key=self.order)
        has_piece = any(b.pieces for b in bs)
        tails = {repr(b.tail[1]) for b in bs if b.tail is not None and b.tail[1] != "unit"}
        n_val = sum(1 for b in bs if b.tail is not None and b.tail[1] != "unit")
        if len(tails) > 1 or n_val not in (0, len(bs)):
            self.err("the branches of a conditional have different types")
        mon = any(b.sink.mon for b in bs)
        text_ = mk([b.sink.render(self.branch_result(b, has_piece, A, env), mon) for b in bs])
        names = []
        if has_piece:
            s = self.piece()
            pieces.append(s)
            names.append(s)
        names += [env[a][0] for a in A]
        val = None
        if n_val:
            t = self.tmp()
            names.append(t)
            val = (t, next(b.tail[1] for b in bs), None)
        for a in A:
            env[a] = (env[a][0], env[a][1], None)
        if names or mon:
            sink.put(names or ["_"], text_, mon)
        return val

    def compound(self, e, env, sink, live, pieces):
        if e[0] == "if":
            c = self.ex(e[1], env, sink)
            if c[1] != "bool":
                self.err("`if` on a %s" % (c[1],))
            b1 = self.block(e[2], env, live)
            b2 = self.block(e[3] or ([], None), env, live)
            return self.join_branches([b1, b2], env, sink, live, pieces,
                                      lambda r: "if %s then\n%s\nelse\n%s" % (c[0], ind(r[0], 2), ind(r[1], 2)))
        scrut = self.ex(e[1], env, sink)
        ty = scrut[1]
        arms = e[2]
        if isinstance(ty, tuple) and ty[0] == "list":
            return self.match_slice(scrut, arms, env, sink, live, pieces)
        if isinstance(ty, tuple) and ty[0] == "option":
            ctors = [("Some", "Some", [ty[1]]), ("None", "None", [])]
        elif ty in CTORS and ty != "ckm":
            ctors = CTORS[ty]
        else:
            self.err("`match` on a value of type %s" % (ty,))
        # per constructor: the chain of the arms that can match it, in source order
        groups = []
        for rv, mc, payload in ctors:
            chain, binders = [], None
            for p, g, body in arms:
                if p[0] == "pctor" and p[1][-1] == rv and (len(p[1]) == 1 or p[1][0] == ENUM_OF.get(ty)):
                    if len(p[2]) != len(payload):
                        self.err("pattern `%s` with %d argument(s)" % (rv, len(p[2])))
                    sub = p[2]
                elif p[0] == "pwild":
                    sub = [("pwild",)] * len(payload)
                elif p[0] == "pctor":
                    continue
                else:
                    self.err("unsupported pattern in a `match` on %s" % (ty,))
                if binders is None:
                    binders = [("v_" + q[1]) if q[0] == "pvar" else "_" for q in sub]
                env2 = dict(env)
                for n, (q, pty) in enumerate(zip(sub, payload)):
                    if q[0] == "pvar":
                        if binders[n] == "_":
                            binders[n] = "v_" + q[1]
                        env2[q[1]] = (binders[n], pty, {"u8": 255, "u16": 65535}.get(pty))
                    elif q[0] != "pwild":
                        self.err("unsupported sub-pattern in `%s(..)`" % rv)
                chain.append((g, body, env2))
                if g is None:
                    break
            if not chain or chain[-1][0] is not None:
                self.err("`match` on %s: no unguarded arm for %s" % (ty, rv))
            groups.append((mc, payload, binders, chain))
        # translate every (guard, body); guards must be pure
        flat, shape = [], []
        for mc, payload, binders, chain in groups:
            gs = []
            for g, body, env2 in chain:
                gc = None
                if g is not None:
                    s = Sink()
                    gv = self.ex(g, env2, s)
                    if s.lines or gv[1] != "bool":
                        self.err("a match guard that can panic / is not boolean")
                    gc = gv[0]
                    narrow(env2, g)
                flat.append(self.block(body, env2, live))
                gs.append(gc)
            shape.append((mc, payload, binders, gs))

        def mk(rendered):
            out, n = [], 0
            for mc, payload, binders, gs in shape:
                bs = []
                for b, pty in zip(binders, payload):
                    bs += (["_"] * 3 if b == "_" else ["%s_%s" % (b, x) for x in "rgb"]) if pty == "rgb8" else [b]
                body = ""
                for g in gs:
                    r = rendered[n]
                    n += 1
                    body += "if %s then\n%s\nelse\n" % (g, ind(r, 2)) if g is not None else (ind(r, 2) if body else r)
                out.append("| %s =>%s" % (" ".join([mc] + bs), " " + body if "\n" not in body else "\n" + ind(body, 2)))
            return "match %s with\n%s\nend" % (scrut[0], "\n".join(out))

        return self.join_branches(flat, env, sink, live, pieces, mk)

    def match_slice(self, scrut, arms, env, sink, live, pieces):
        """slice patterns without guards: Coq's `match` on lists is first-match as well"""
        ety = scrut[1][1]
        pats, bs = [], []
        for p, g, body in arms:
            if g is not None or p[0] != "pslice":
                self.err("unsupported arm in a `match` on a slice")
            env2, names, rest = dict(env), [], None
            for q in p[1]:
                if rest is not None:
                    self.err("unsupported: sub-pattern after `rest @ ..`")
                if q[0] == "pvar":
                    names.append("v_" + q[1])
                    env2[q[1]] = ("v_" + q[1], ety, {"u8": 255, "u16": 65535}.get(ety))
                elif q[0] == "pwild":
                    names.append("_")
                elif q[0] == "prest":
                    rest = "v_" + q[1]
                    env2[q[1]] = (rest, scrut[1], None)
                else:
                    self.err("unsupported sub-pattern in a slice pattern")
            pats.append(" :: ".join(names + [rest]) if rest else "[%s]" % "; ".join(names))
            body_stmts, body_tail = body
            if body_tail == ("unreachable",):
                body = (body_stmts + [("expr", body_tail)], None)
            bs.append(self.block(body, env2, live))
        if "[]" not in pats or not any(p.count(" :: ") == 1 for p in pats):
            self.err("a `match` on a slice without the arms `[]` and `[x, rest @ ..]`")

        def mk(rendered):
            arms_ = ["| %s =>\n%s" % (p, ind(r, 2)) for p, r in zip(pats, rendered)]
            return "match %s with\n%s\nend" % (scrut[0], "\n".join(arms_))

        return self.join_branches(bs, env, sink, live, pieces, mk)

    def for_(self, st, env, sink, live, pieces):
        _, p, it, body = st
        v = self.ex(it, env, sink)
        if not isinstance(v[1], tuple) or v[1][0] != "list":
            self.err("`for` over a value of type %s" % (v[1],))
        env2 = dict(env)

        def bind_pat(p, ty):
            if p[0] == "pwild":
                return "_"
            if p[0] == "pvar":
                if p[1] in self.muts or p[1] == self.acc:
                    self.err("the `for` pattern shadows the mutable local `%s`" % p[1])
                env2[p[1]] = ("v_" + p[1], ty, {"u8": 255, "u16": 65535}.get(ty))
                return "v_" + p[1]
            if p[0] == "ptuple" and isinstance(ty, tuple) and ty[0] == "tuple" and len(ty[1]) == len(p[1]):
                return "'(%s)" % ", ".join(bind_pat(q, t).lstrip("'") for q, t in zip(p[1], ty[1]))
            self.err("unsupported `for` pattern")

        x = bind_pat(p, v[1][1])
        old_loop = self.loop_live
        self.loop_live = old_loop | idents(st)
        b = self.block(body, env2, None if live is None else live | idents(st))
        self.loop_live = old_loop
        if b.tail is not None:
            self.err("a `for` body with a value")
        A = sorted(b.assigned, key=self.order)
        if not A:
            if not b.pieces:
                self.err("a `for` loop without effect")
            s = self.piece()
            body = b.sink.render(cat(b.pieces), b.sink.mon)
            f = "fun %s =>%s" % (x, "\n" + ind(body, 2) if "\n" in body else " " + body)
            sink.put([s], "%s (%s) %s" % ("g_flat_mapM" if b.sink.mon else "flat_map", f, paren(v[0])), b.sink.mon)
            pieces.append(s)
            return
        state = tup([env[a][0] for a in A])
        f = "fun %s %s =>\n%s" % (tpat([env[a][0] for a in A]), x,
                                 ind(b.sink.render("(%s, %s)" % (cat(b.pieces), state), True), 2))
        names = [env[a][0] for a in A]
        if b.pieces:
            s = self.piece()
            pieces.append(s)
        else:
            s = "_"
        sink.lines.append("'(%s, %s) <- g_for (%s) %s %s ;;" % (s, state, f, paren(v[0]), state))
        sink.mon = True
        for a in A:
            env[a] = (env[a][0], env[a][1], None)
            self.assigned.add(a)

    def order(self, x):
        return self.decl_order.setdefault(x, len(self.decl_order))


def strip_scope(c, sc):
    """`5%nat` inside a delimited expression of the same scope -> `5`"""
    suf = "%" + sc
    return c[:-len(suf)] if c.endswith(suf) and c[:-len(suf)].isdigit() else c


def narrow(env, g):
    """upper bounds of u8 pattern variables from a guard `*x < N` / `*x <= N`"""
    while g[0] in ("paren",):
        g = g[1]
    if g[0] == "bin" and g[1] == "&&":
        narrow(env, g[2])
        narrow(env, g[3])
    if g[0] == "bin" and g[1] in ("<", "<=") and g[3][0] == "num":
        x = g[2]
        while x[0] in ("deref", "paren", "ref"):
            x = x[1]
        if x[0] == "var" and x[1] in env and env[x[1]][1] in ("u8", "u16"):
            c, ty, hi = env[x[1]]
            n = g[3][1] - (1 if g[1] == "<" else 0)
            env[x[1]] = (c, ty, n if hi is None else min(hi, n))


# ------------------------------------------------------------------------------ the functions

# (model receiver type, fn) -> (file, impl header, g-name, [(param, type)], result type, appends-to-last-&mut-String)
SIGS = {
    ("color", "sgr_params"): ("color", ["Color"], "g_sgr_params", [("base", "u8")], "string", False),
    ("pen", "is_default"): ("pen", ["Pen"], "g_pen_is_default", [], "bool", False),
    ("pen", "dump"): ("pen", ["Pen"], "g_pen_dump", [], "string", False),
    ("ctx", "is_default"): ("terminal", ["SavedCtx"], "g_ctx_is_default", [], "bool", False),
    ("param", "fmt"): ("parser", ["Display", "for", "Param"], "g_param_fmt", [], "string", True),
    ("parser", "dump"): ("parser", ["Parser"], "g_parser_dump", [], "string", False),
    ("buffer", "index"): ("buffer", ["Index", "<", "VisualPosition", ">", "for", "Buffer"], "g_buffer_index",
                          [("col", "nat"), ("row", "nat")], "cell", False),
    ("buffer", "rep_encode_cell_text"): ("buffer", ["Buffer"], "g_buffer_rep_encode_cell_text",
                                         [("cells", ("list", "cell"))], "unit", True),
    ("buffer", "dump"): ("buffer", ["Buffer"], "g_buffer_dump", [], "string", False),
    ("term", "primary_buffer"): ("terminal", ["Terminal"], "g_term_primary_buffer", [], "buffer", False),
    ("term", "alternate_buffer"): ("terminal", ["Terminal"], "g_term_alternate_buffer", [], "buffer", False),
    ("term", "dump"): ("terminal", ["Terminal"], "g_term_dump", [], "string", False),
    ("vt", "dump"): ("vt", ["Vt"], "g_vt_dump", [], "string", False),
}
# the exact signature texts (between the fn name and the body)
SIG_TEXT = {
    ("color", "sgr_params"): "( & self , base : u8 ) -> String",
    ("pen", "is_default"): "( & self ) -> bool",
    ("pen", "dump"): "( & self ) -> String",
    ("ctx", "is_default"): "( & self ) -> bool",
    ("param", "fmt"): "( & self , f : & mut std :: fmt :: Formatter < '_ > ) -> std :: fmt :: Result",
    ("parser", "dump"): "( & self ) -> String",
    ("buffer", "index"): "( & self , ( col , row ) : VisualPosition ) -> & Self :: Output",
    ("buffer", "rep_encode_cell_text"): "( & self , cells : & [ Cell ] , dump : & mut String )",
    ("buffer", "dump"): "( & self ) -> String",
    ("term", "primary_buffer"): "( & self ) -> & Buffer",
    ("term", "alternate_buffer"): "( & self ) -> & Buffer",
    ("term", "dump"): "( & self ) -> String",
    ("vt", "dump"): "( & self ) -> String",
}
ROOTS = [("color", "sgr_params"), ("pen", "is_default"), ("pen", "dump"), ("ctx", "is_default"), ("param", "fmt"),
         ("parser", "dump"), ("buffer", "index"), ("buffer", "rep_encode_cell_text"), ("buffer", "dump"),
         ("term", "primary_buffer"), ("term", "alternate_buffer"), ("term", "dump"), ("vt", "dump")]
ACC_PARAM = {("param", "fmt"): "f", ("buffer", "rep_encode_cell_text"): "dump"}

PRELUDE = """(** Uses of the model: the records (Model/Types.v), the panic monad (Model/Base.v), [show_N] / [show_nat]
    (Model/Parser.v: decimal text of an integer), [pen_eqb] / [list_eqb] (derived [PartialEq]); of the generated
    files: [g_buffer_view], [g_line_is_blank], [g_tabs_new], [nthM], [enumerate] (Gen/BufFns.v), [g_is_italic] ..,
    [g_pen_default] (Gen/SgrFns.v). *)

(** [it.next().unwrap()] on a [let mut] iterator: the item and the rest *)
Definition g_next {A} (l : list A) (site : nat) : res (A * list A) :=
  match l with [] => Panic site | x :: r => Ok (x, r) end.

(** [for x in l { body }] where the body appends text and updates the mutable locals [st] *)
Fixpoint g_for {A S} (body : S -> A -> res (list N * S)) (l : list A) (st : S) : res (list N * S) :=
  match l with
  | [] => Ok ([], st)
  | x :: r => '(s1, st1) <- body st x ;; '(s2, st2) <- g_for body r st1 ;; Ok (s1 ++ s2, st2)
  end.

(** [for x in l { body }] where the body only appends text (and may panic) *)
Fixpoint g_flat_mapM {A} (body : A -> res (list N)) (l : list A) : res (list N) :=
  match l with
  | [] => Ok []
  | x :: r => s1 <- body x ;; s2 <- g_flat_mapM body r ;; Ok (s1 ++ s2)
  end.

(** [l.iter().map(f)] with an [f] that may panic *)
Fixpoint g_mapM {A B} (f : A -> res B) (l : list A) : res (list B) :=
  match l with
  | [] => Ok []
  | x :: r => y <- f x ;; ys <- g_mapM f r ;; Ok (y :: ys)
  end.

(** [Vec<String>::join(sep)] *)
Fixpoint g_join (sep : list N) (l : list (list N)) : list N :=
  match l with
  | [] => []
  | [x] => x
  | x :: r => x ++ sep ++ g_join sep r
  end.

(** [Line::chunks(pred)] = [Chunks::new(self.cells.iter(), pred)] collected (line.rs; HAND-WRITTEN, the three Rust
    bodies are compared token for token with a pinned text by the translator): [cur] is [self.cells] most recent
    first; a chunk ends before every cell [c] with [pred last c] *)
Fixpoint g_chunks_go (pred : cell -> cell -> bool) (cur : list cell) (l : list cell) : list (list cell) :=
  match l with
  | [] => match cur with [] => [] | _ => [rev cur] end
  | c :: r =>
    match cur with
    | [] => g_chunks_go pred [c] r
    | last :: _ => if pred last c then rev cur :: g_chunks_go pred [c] r else g_chunks_go pred (c :: cur) r
    end
  end.
Definition g_chunks (pred : cell -> cell -> bool) (l : line) : list (list cell) := g_chunks_go pred [] (cells l).
"""


class Translator:
    def __init__(self, srcs):
        self.srcs = srcs
        self.sigs = SIGS
        self.done, self.order, self.busy = {}, [], []
        self.arg_bound = {}

    def need(self, mty, name):
        """translate (mty, name) if not done yet; returns (mty, g-name, params, result type, monadic)"""
        key = (mty, name)
        if key not in self.done:
            if key in self.busy:
                raise TErr("recursion through %s::%s" % key)
            self.busy.append(key)
            self.done[key] = self.translate(key)
            self.busy.pop()
            self.order.append(key)
        _, _, gname, params, rty, _ = SIGS[key]
        rty = "string" if SIGS[key][5] else rty
        return (mty, gname, params, rty, self.done[key][1])

    def translate(self, key):
        f, hdr, gname, params, rty, appends = SIGS[key]
        toks = self.srcs[f]
        lo, hi = find_impl(toks, hdr)
        fs, bo, bc = find_fn(toks, key[1], lo, hi)
        where = "%s::%s" % (hdr[-1], key[1])
        if text(toks[fs + 2:bo]) != SIG_TEXT[key]:
            raise TErr("%s: signature changed: %s" % (where, text(toks[fs + 2:bo])))
        p = P(toks[bo:bc + 1], where)
        body = p.block()
        fn = Fn(self, where, 200 + ROOTS.index(key))
        fn.muts, fn.assigned, fn.decl_order, fn.loop_live = set(), set(), {}, set()
        fn.ret_string_param = appends
        env = {"self": ("self", key[0], None)}
        for pn, pty in params:
            hi_ = None
            if pty == "u8":
                hi_ = self.param_bound(key, pn)
            env[pn] = ("v_" + pn, pty, hi_)
        if appends:
            fn.acc = ACC_PARAM[key]
        b = fn.block(body, env, set())
        if b.assigned:
            raise TErr("%s: internal: assigned locals escape the body" % where)
        if appends:
            if b.tail is not None and b.tail[1] != "unit":
                raise TErr("%s: unexpected result value" % where)
            result, rty = cat(b.pieces), "string"
        else:
            if b.tail is None or b.pieces:
                raise TErr("%s: the body does not end in its result" % where)
            if b.tail[1] != rty:
                raise TErr("%s: result of type %s, expected %s" % (where, b.tail[1], rty))
            result = b.tail[0]
        mon = b.sink.mon
        sig = "(self : %s)" % cty(key[0]) + "".join(" (v_%s : %s)" % (pn, cty(pty)) for pn, pty in params)
        res_ty = cty(rty)
        coq = "Definition %s %s : %s :=\n%s.\n" % (gname, sig, "res (%s)" % res_ty if mon and " " in res_ty else
                                                   "res " + res_ty if mon else res_ty, ind(b.sink.render(result, mon), 2))
        return coq, mon

    def param_bound(self, key, pn):
        """a u8 parameter: the maximum of the literal arguments at ALL call sites `.name(` in the crate"""
        name, best, n = key[1], None, 0
        for toks in self.srcs["*"]:
            for i in range(len(toks) - 2):
                if toks[i] == ("punct", ".") and toks[i + 1] == ("id", name) and toks[i + 2] == ("punct", "("):
                    c = match_close(toks, i + 2)
                    a = toks[i + 3:c]
                    if len(a) != 1 or a[0][0] != "num" or not a[0][1].isdigit():
                        raise TErr("%s: a call site with a non-literal argument: %s" % (name, text(toks[i:c + 1])))
                    best = max(best or 0, int(a[0][1]))
                    n += 1
        if n == 0:
            raise TErr("%s: no call site found" % name)
        return best


def check_decls(srcs):
    for rname, (mty, fs) in STRUCTS.items():
        toks = srcs[STRUCT_FILE[rname]]
        for i in range(len(toks) - 2):
            if toks[i] == ("id", "struct") and toks[i + 1] == ("id", rname) and toks[i + 2] == ("punct", "{"):
                c = match_close(toks, i + 2)
                decl = {}
                j = i + 3
                while j < c:
                    while toks[j][1] in ("pub", "(", "crate", ")"):
                        j += 1
                    name = toks[j][1]
                    k = j + 2
                    d = 0
                    while k < c and not (d == 0 and toks[k] == ("punct", ",")):
                        d += (toks[k][1] in ("<", "(", "[")) - (toks[k][1] in (">", ")", "]"))
                        k += 1
                    decl[name] = text(toks[j + 2:k])
                    j = k + 1
                break
        else:
            raise TErr("struct %s not found" % rname)
        for f, (_, _, rty) in fs.items():
            if decl.get(f) != rty:
                raise TErr("struct %s: field `%s` is declared `%s`, expected `%s`" % (rname, f, decl.get(f), rty))
    for rname, (mty, vs) in ENUMS.items():
        toks = srcs[ENUM_FILE[rname]]
        for i in range(len(toks) - 2):
            if toks[i] == ("id", "enum") and toks[i + 1] == ("id", rname) and toks[i + 2] == ("punct", "{"):
                c = match_close(toks, i + 2)
                inner = [t for t in toks[i + 3:c]]
                # drop attributes such as #[default]
                out, j = [], 0
                while j < len(inner):
                    if inner[j] == ("punct", "#"):
                        j = match_close(inner, j + 1) + 1
                        continue
                    out.append(inner[j])
                    j += 1
                got = text(out)
                break
        else:
            raise TErr("enum %s not found" % rname)
        want = " ".join("%s%s ," % (rv, " ( %s )" % " , ".join({"u8": "u8", "rgb8": "RGB8"}[p] for p in pl) if pl else "")
                        for rv, _, pl in vs)
        if got != want:
            raise TErr("enum %s: variants `%s`, expected `%s`" % (rname, got, want))
    for f, kind, name, trait in DERIVES:
        toks = srcs[f]
        for i in range(len(toks) - 1):
            if toks[i] == ("id", kind) and toks[i + 1] == ("id", name):
                j = i
                while j > 0 and toks[j] != ("punct", "#"):
                    j -= 1
                attr = text(toks[j:i])
                if "derive (" not in attr or (" %s " % trait) not in attr.replace(",", " , "):
                    raise TErr("%s %s no longer derives %s" % (kind, name, trait))
                break
        else:
            raise TErr("%s %s not found" % (kind, name))
        for g in srcs["*"]:
            for i in range(len(g) - 4):
                if text(g[i:i + 4]) == "impl %s for %s" % (trait, name):
                    raise TErr("%s has a hand-written impl of %s" % (name, trait))
    for f, hdr, fn, body in PINNED:
        toks = srcs[f]
        lo, hi = find_impl(toks, hdr)
        _, bo, bc = find_fn(toks, fn, lo, hi)
        if text(toks[bo + 1:bc]) != body:
            raise TErr("%s::%s: the body differs from the pinned text: %s" % (hdr[-1], fn, text(toks[bo + 1:bc])))


def gen_dumpfns(srcs, hdr):
    """srcs: {'color','pen','terminal','cursor','parser','buffer','line','cell','tabs','charset','vt': tokens,
              '*': [the tokens of every .rs file of the crate]}"""
    check_decls(srcs)
    tr = Translator(srcs)
    for key in ROOTS:
        tr.need(*key)
    # the bound assumed for a u8 parameter must cover every call made from the translated code
    for (key, pn), hi in tr.arg_bound.items():
        if hi > tr.param_bound(key, pn):
            raise TErr("internal: u8 bound of %s.%s" % (key[1], pn))
    v = hdr + ("From Coq Require Import List Arith NArith Bool.\n"
               "From Avt Require Import Model.Parser Model.Prims Gen.BufFns Gen.SgrFns.\n"
               "Import ListNotations.\nLocal Open Scope N_scope.\nLocal Open Scope bool_scope.\n\n") + PRELUDE
    titles = {"color": "color.rs", "pen": "pen.rs", "ctx": "terminal.rs: SavedCtx", "param": "parser.rs: Param",
              "parser": "parser.rs: Parser", "buffer": "buffer.rs", "term": "terminal.rs: Terminal", "vt": "vt.rs"}
    last = None
    for key in tr.order:
        if key[0] != last:
            v += "\n(** * %s *)\n" % titles[key[0]]
            last = key[0]
        v += "\n(** [%s::%s] *)\n%s" % (SIGS[key][1][-1], key[1], tr.done[key][0])
    return v, {"dump_fns": len(tr.order)}
