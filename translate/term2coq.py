"""term2coq: the SCALAR control functions of src/terminal.rs as Gallina over Z (Gen/TermFns.v).

The method bodies are parsed (tokens from rustlex) into a small AST and re-emitted as
functions over a record `zt` of the scalar fields.  Semantics of the emitted code:

  * `usize` / `isize` / `u16` values are plain `Z`; `+ *` are `Z` operations (no overflow
    is modelled), `.min/.max` are `Z.min/Z.max`, comparisons are `Z` comparisons;
  * `a - b` at an unsigned type adds the side condition `b <= a` (Rust: panic in debug
    builds, wrap-around in release builds); `x as usize` adds `0 <= x`; `x as isize` is the
    identity; `/` and `%` (unsigned only) add `b <> 0`;
  * `fn f(&mut self, a..)`  ->  `g_f (s : zt) (a.. : Z) : zt * bool`
    `fn f(&self, a..) -> T` ->  `g_f (s : zt) (a.. : Z) : T * bool`
    `fn f(a..) -> T`        ->  `g_f (a.. : Z) : T * bool`
    the bool is the conjunction of the side conditions met on the executed path (`&&`,
    `||`, `if` and `match` only charge the evaluated operands / the taken branch);
  * calls that leave the scalar world (buffer, tabs, dirty lines) are recorded, with their
    already evaluated arguments, in the event list `z_ev` (most recent first).

Anything outside this fragment raises TErr naming the construct: the caller prints
TRANSLATE-ERROR and exits 2 (a broken tie).  Nothing is skipped silently: every function
reachable from ROOTS is translated completely or not at all.
"""
from rustlex import find_fn, find_impl, match_close, num_value, parse_match_arms, split_top, text


class TErr(Exception):
    pass


# Rust place -> (zt field, type).  The declared types are checked against the structs.
FIELDS = [
    ("cols", "z_cols", "usize"), ("rows", "z_rows", "usize"),
    ("cursor.col", "z_col", "usize"), ("cursor.row", "z_row", "usize"),
    ("pending_wrap", "z_pend", "bool"),
    ("top_margin", "z_top", "usize"), ("bottom_margin", "z_bot", "usize"),
    ("origin_mode", "z_org", "bool"), ("new_line_mode", "z_nlm", "bool"),
    ("active_charset", "z_acs", "usize"),
    ("charsets[0]", "z_cs0", "Charset"), ("charsets[1]", "z_cs1", "Charset"),
]
FIELD = {p: (z, ty) for p, z, ty in FIELDS}
COQ_TY = {"usize": "Z", "isize": "Z", "u16": "Z", "bool": "bool", "Charset": "charset", "range": "(Z * Z)"}
INT = ("usize", "isize", "u16")
UNSIGNED = ("usize", "u16")

# calls that leave the scalar world: (receiver place, method) -> (event ctor, argument kinds)
#   'i' an integer argument, 'r' a range (two integers), 'pen' the literal `&self.pen`
EXTERN = {
    ("tabs", "set"): ("EvTabSet", ["i"]),
    ("tabs", "unset"): ("EvTabUnset", ["i"]),
    ("tabs", "clear"): ("EvTabsClear", []),
    ("buffer", "scroll_up"): ("EvBufScrollUp", ["r", "i", "pen"]),
    ("buffer", "scroll_down"): ("EvBufScrollDown", ["r", "i", "pen"]),
    ("dirty_lines", "extend"): ("EvDirtyExtend", ["r"]),
}
EVENTS = [("EvTabSet", 1), ("EvTabUnset", 1), ("EvTabsClear", 0), ("EvBufScrollUp", 3),
          ("EvBufScrollDown", 3), ("EvDirtyExtend", 2)]

# the functions whose translation is delivered (callees are pulled in on demand)
ROOTS = ["as_usize", "do_move_cursor_to_col", "move_cursor_to_col", "do_move_cursor_to_row",
         "actual_top_margin", "actual_bottom_margin", "move_cursor_to_row", "move_cursor_to_rel_col",
         "move_cursor_home", "cursor_down", "cursor_up", "bs", "cr", "so", "si", "gzd4", "g1d4",
         "cuu", "cud", "cuf", "cub", "cnl", "cpl", "cha", "cup", "vpa", "vpr", "decstbm",
         "set_tab", "clear_tab", "clear_all_tabs", "scroll_up_in_region", "scroll_down_in_region",
         "move_cursor_down_with_scroll", "lf", "nel", "ri", "il", "dl", "su", "sd", "hts"]

# binary operators, lowest precedence first (`..` and `as` are handled separately)
BINOPS = [("||",), ("&&",), ("==", "!=", "<", "<=", ">", ">="), ("+", "-"), ("*", "/", "%")]


# ------------------------------------------------------------------------------ parser

class Parser:
    """Recursive descent over rustlex tokens.  AST nodes are tuples:
       expressions  ('num', n) ('bool', b) ('var', x) ('self',) ('field', e, name) ('index', e, e)
                    ('neg', e) ('not', e) ('ref', e) ('bin', op, a, b) ('cast', e, ty) ('range', a, b)
                    ('mcall', recv, name, args) ('call', name, args) ('paren', e)
                    ('if', cond, block, block|None) ('match', e, [(pat, block)])
       statements   ('let', x, e) ('assign', lhs, op, e) ('expr', e)
       block        (stmts, tail_expr|None)"""

    def __init__(self, toks, where):
        self.t, self.i, self.where = toks, 0, where

    def err(self, what):
        raise TErr("%s: %s near: %s" % (self.where, what, text(self.t[max(0, self.i - 5):self.i + 8])))

    def peek(self, off=0):
        return self.t[self.i + off] if self.i + off < len(self.t) else (None, None)

    def at(self, txt, off=0):
        k, t = self.peek(off)
        return t == txt and k in ("punct", "id")

    def eat(self, txt=None, kind=None):
        k, t = self.peek()
        if k is None or (txt is not None and t != txt) or (kind is not None and k != kind):
            self.err("expected %s, found %r" % (repr(txt) if txt else kind, t))
        self.i += 1
        return t

    # -- blocks and statements
    def block(self):
        self.eat("{")
        stmts, tail = [], None
        while not self.at("}"):
            if tail is not None:
                self.err("expression without `;` in the middle of a block")
            if self.at("let"):
                self.eat()
                if self.at("mut"):
                    self.eat()
                name = self.eat(kind="id")
                if self.at(":"):
                    self.err("unsupported: type annotation on let")
                self.eat("=")
                e = self.expr()
                self.eat(";")
                stmts.append(("let", name, e))
                continue
            if self.peek()[0] == "id" and self.peek()[1] in ("return", "for", "while", "loop", "use", "break",
                                                             "continue", "unsafe", "fn", "const", "static"):
                self.err("unsupported statement `%s`" % self.peek()[1])
            e = self.expr()
            k, t = self.peek()
            if t in ("=", "+=", "-=") and k == "punct":
                self.eat()
                rhs = self.expr()
                self.eat(";")
                stmts.append(("assign", e, t, rhs))
            elif t == ";":
                self.eat()
                stmts.append(("expr", e))
            elif e[0] in ("if", "match") and not self.at("}"):
                stmts.append(("expr", e))          # block-like expression statement
            elif self.at("}"):
                tail = e
            else:
                self.err("unsupported statement form (after an expression: %r)" % t)
        self.eat("}")
        return (stmts, tail)

    # -- expressions
    def expr(self):
        a = self.binary(0)
        if self.at(".."):
            self.eat()
            return ("range", a, self.binary(0))
        if self.at("..="):
            self.err("unsupported operator `..=`")
        return a

    def binary(self, lvl):
        if lvl == len(BINOPS):
            return self.cast()
        a = self.binary(lvl + 1)
        while self.peek()[0] == "punct" and self.peek()[1] in BINOPS[lvl]:
            op = self.eat()
            b = self.binary(lvl + 1)
            a = ("bin", op, a, b)
            if lvl == 2 and self.peek()[1] in BINOPS[2] and self.peek()[0] == "punct":
                self.err("chained comparison")
        return a

    def cast(self):
        e = self.unary()
        while self.at("as"):
            self.eat()
            e = ("cast", e, self.eat(kind="id"))
        return e

    def unary(self):
        if self.at("-"):
            self.eat()
            return ("neg", self.unary())
        if self.at("!"):
            self.eat()
            return ("not", self.unary())
        if self.at("&"):
            self.eat()
            if self.at("mut"):
                self.err("unsupported: `&mut` expression")
            return ("ref", self.unary())
        if self.at("*"):
            self.err("unsupported: dereference")
        return self.postfix()

    def args(self):
        self.eat("(")
        out = []
        while not self.at(")"):
            out.append(self.expr())
            if not self.at(")"):
                self.eat(",")
        self.eat(")")
        return out

    def postfix(self):
        e = self.primary()
        while True:
            if self.at("."):
                self.eat()
                k, name = self.peek()
                if k != "id":
                    self.err("unsupported: `.%s`" % name)
                self.eat()
                if self.at("("):
                    e = ("mcall", e, name, self.args())
                else:
                    e = ("field", e, name)
            elif self.at("["):
                self.eat()
                ix = self.expr()
                self.eat("]")
                e = ("index", e, ix)
            elif self.at("?"):
                self.err("unsupported operator `?`")
            else:
                return e

    def primary(self):
        k, t = self.peek()
        if k == "num":
            self.eat()
            for suf in ("u8", "u16", "u32", "u64", "i32", "i64", "usize", "isize"):
                if t.endswith(suf):
                    self.err("unsupported: suffixed literal " + t)
            return ("num", num_value(t))
        if k == "punct" and t == "(":
            self.eat()
            e = self.expr()
            if self.at(","):
                self.err("unsupported: tuple expression")
            self.eat(")")
            return ("paren", e)
        if k == "id":
            if t in ("true", "false"):
                self.eat()
                return ("bool", t == "true")
            if t == "self":
                self.eat()
                return ("self",)
            if t == "if":
                self.eat()
                if self.at("let"):
                    self.err("unsupported: `if let`")
                c = self.expr()
                b1 = self.block()
                b2 = None
                if self.at("else"):
                    self.eat()
                    if self.at("if"):
                        b2 = ([], self.primary())      # else-if chain: a block whose tail is the nested if
                    else:
                        b2 = self.block()
                return ("if", c, b1, b2)
            if t == "match":
                self.eat()
                scrut = self.expr()
                self.eat("{")
                arms = []
                while not self.at("}"):
                    pk, pat = self.peek()
                    if not (pk == "id" and pat in ("true", "false", "_")):
                        self.err("unsupported match pattern")
                    self.eat()
                    self.eat("=>")
                    if self.at("{"):
                        body = self.block()
                        if self.at(","):
                            self.eat()
                    else:
                        body = ([], self.expr())
                        if not self.at("}"):
                            self.eat(",")
                    arms.append((pat, body))
                self.eat("}")
                return ("match", scrut, arms)
            if t in ("let", "mut", "return", "for", "while", "loop", "move", "unsafe", "as", "else", "fn"):
                self.err("unexpected keyword `%s`" % t)
            self.eat()
            if self.at("::"):
                self.err("unsupported: path expression %s::" % t)
            if self.at("!"):
                self.err("unsupported: macro call %s!" % t)
            if self.at("("):
                return ("call", t, self.args())
            if self.at("{") and t[0].isupper():
                self.err("unsupported: struct literal " + t)
            return ("var", t)
        self.err("unsupported expression start %r" % t)


def parse_sig(toks, fs, bo, where):
    """toks[fs] = `fn`; returns (self_kind in {None,'ref','mut'}, [(name, ty)], ret_ty|None)"""
    p = Parser(toks[fs:bo], where)
    p.eat("fn")
    p.eat(kind="id")
    if p.at("<"):
        p.err("unsupported: generic function")
    p.eat("(")
    selfk, params = None, []
    if p.at("&"):
        p.eat()
        selfk = "ref"
        if p.at("mut"):
            p.eat()
            selfk = "mut"
        p.eat("self")
        if not p.at(")"):
            p.eat(",")
    elif p.at("self") or (p.at("mut") and p.at("self", 1)):
        p.err("unsupported: by-value self")
    while not p.at(")"):
        if p.at("mut"):
            p.eat()
        name = p.eat(kind="id")
        p.eat(":")
        ty = p.eat(kind="id")
        if ty not in COQ_TY or ty == "range":
            p.err("unsupported parameter type " + ty)
        params.append((name, ty))
        if not p.at(")"):
            p.eat(",")
    p.eat(")")
    ret = None
    if p.at("->"):
        p.eat()
        ret = p.eat(kind="id")
        if ret not in COQ_TY or ret == "range":
            p.err("unsupported return type " + ret)
    if p.i != len(p.t):
        p.err("unsupported signature tail")
    return selfk, params, ret


# ------------------------------------------------------------------------------ emitter

def conj(*cs):
    cs = [c for c in cs if c is not None]
    if not cs:
        return None
    return " && ".join(cs)


def paren_c(c):
    return None if c is None else "(%s)" % c


class Fn:
    def __init__(self, name, selfk, params, ret, body):
        self.name, self.selfk, self.params, self.ret, self.body = name, selfk, params, ret, body


class Emitter:
    def __init__(self, toks):
        self.toks = toks
        self.lo, self.hi = find_impl(toks, ["Terminal"])
        self.fns = {}          # name -> Fn (translated)
        self.out = []          # (name, gallina definition) in dependency order
        self.busy = []

    # -- locating and translating functions on demand
    def need(self, name, is_method):
        if name in self.fns:
            f = self.fns[name]
        else:
            if name in self.busy:
                raise TErr("recursion through %s" % name)
            try:
                if is_method:
                    fs, bo, bc = find_fn(self.toks, name, self.lo, self.hi)
                else:
                    fs, bo, bc = find_fn(self.toks, name)
                    if self.lo < fs < self.hi:
                        raise TErr("%s: called as a free function but defined in impl Terminal" % name)
            except Exception as e:          # LexError from find_fn
                if isinstance(e, TErr):
                    raise
                raise TErr("function %s not found (%s)" % (name, e))
            selfk, params, ret = parse_sig(self.toks, fs, bo, name + " signature")
            p = Parser(self.toks[bo:bc + 1], name)
            body = p.block()
            if p.i != len(p.t):
                p.err("trailing tokens after the body")
            f = Fn(name, selfk, params, ret, body)
            self.busy.append(name)
            self.out.append((name, self.emit_fn(f)))
            self.busy.pop()
            self.fns[name] = f
        if is_method and f.selfk is None:
            raise TErr("%s: called as a method but has no self" % name)
        if not is_method and f.selfk is not None:
            raise TErr("%s: called as a free function but takes self" % name)
        return f

    # -- places
    def place(self, e, where):
        """self.a.b / self.a[0] -> 'a.b' / 'a[0]'  (None if e is not rooted at self)"""
        if e[0] == "self":
            return ""
        if e[0] == "field":
            b = self.place(e[1], where)
            if b is None:
                return None
            return (b + "." if b else "") + e[2]
        if e[0] == "index":
            b = self.place(e[1], where)
            if b is None:
                return None
            if e[2][0] != "num":
                raise TErr("%s: unsupported: non-literal index into self.%s" % (where, b))
            return "%s[%d]" % (b, e[2][1])
        return None

    # -- expressions: returns (gallina, cond|None, type); type None = untyped integer literal
    def unify(self, ta, tb, where, what):
        if ta is None:
            return tb
        if tb is None or ta == tb:
            return ta
        raise TErr("%s: type mismatch in %s: %s vs %s" % (where, what, ta, tb))

    def expr(self, e, env, w, want=None):
        k = e[0]
        if k == "num":
            return str(e[1]), None, None
        if k == "bool":
            return ("true" if e[1] else "false"), None, "bool"
        if k == "paren":
            return self.expr(e[1], env, w, want)
        if k == "var":
            if e[1] not in env:
                raise TErr("%s: unknown variable %s" % (w, e[1]))
            return "v_" + e[1], None, env[e[1]]
        if k in ("field", "index"):
            pl = self.place(e, w)
            if pl is None:
                raise TErr("%s: unsupported: field access on a non-self value" % w)
            if pl not in FIELD:
                raise TErr("%s: unsupported: read of self.%s (not a scalar field of the tie)" % (w, pl))
            z, ty = FIELD[pl]
            return "(%s s)" % z, None, ty
        if k == "self":
            raise TErr("%s: unsupported: bare `self` as a value" % w)
        if k == "neg":
            g, c, ty = self.expr(e[1], env, w, "isize")
            if ty is None:
                if want not in (None, "isize"):
                    raise TErr("%s: negative literal at type %s" % (w, want))
                return "(- %s)" % g, c, "isize"
            if ty != "isize":
                raise TErr("%s: unsupported: unary minus at type %s" % (w, ty))
            return "(- %s)" % g, c, "isize"
        if k == "not":
            g, c, ty = self.expr(e[1], env, w)
            if ty != "bool":
                raise TErr("%s: unsupported: `!` at type %s" % (w, ty))
            return "(negb %s)" % g, c, "bool"
        if k == "ref":
            raise TErr("%s: unsupported: `&` expression" % w)
        if k == "cast":
            g, c, ty = self.expr(e[1], env, w)
            if ty not in INT + (None,):
                raise TErr("%s: unsupported: cast from %s" % (w, ty))
            if e[2] == "isize":
                return g, c, "isize"
            if e[2] == "usize":
                if ty in UNSIGNED:
                    return g, c, "usize"
                return g, conj(c, "(0 <=? %s)" % g), "usize"
            raise TErr("%s: unsupported: cast to %s" % (w, e[2]))
        if k == "bin":
            return self.binop(e, env, w, want)
        if k == "range":
            ga, ca, ta = self.expr(e[1], env, w, "usize")
            gb, cb, tb = self.expr(e[2], env, w, "usize")
            if self.unify(ta, tb, w, "range") not in ("usize", None):
                raise TErr("%s: unsupported: range at type %s" % (w, ta))
            return "(%s, %s)" % (ga, gb), conj(ca, cb), "range"
        if k == "if":
            if e[3] is None:
                raise TErr("%s: `if` without `else` used as a value" % w)
            gc, cc, tc = self.expr(e[1], env, w)
            if tc != "bool":
                raise TErr("%s: `if` condition of type %s" % (w, tc))
            g1, c1, t1 = self.value_block(e[2], env, w, want)
            g2, c2, t2 = self.value_block(e[3], env, w, want)
            ty = self.unify(t1, t2, w, "if branches")
            c = None
            if c1 is not None or c2 is not None:
                c = "(if %s then %s else %s)" % (gc, c1 or "true", c2 or "true")
            return "(if %s then %s else %s)" % (gc, g1, g2), conj(cc, c), ty
        if k == "match":
            gs, cs, ts = self.expr(e[1], env, w)
            if ts != "bool":
                raise TErr("%s: unsupported: `match` on a value of type %s" % (w, ts))
            arms = {}
            for pat, body in e[2]:
                for p in (("true", "false") if pat == "_" else (pat,)):
                    arms.setdefault(p, body)
            if set(arms) != {"true", "false"}:
                raise TErr("%s: non-exhaustive bool match" % w)
            g1, c1, t1 = self.value_block(arms["true"], env, w, want)
            g2, c2, t2 = self.value_block(arms["false"], env, w, want)
            ty = self.unify(t1, t2, w, "match arms")
            c = None
            if c1 is not None or c2 is not None:
                c = "(if %s then %s else %s)" % (gs, c1 or "true", c2 or "true")
            return "(if %s then %s else %s)" % (gs, g1, g2), conj(cs, c), ty
        if k == "mcall":
            recv, name, args = e[1], e[2], e[3]
            if recv[0] == "self":
                f = self.need(name, True)
                if f.ret is None:
                    raise TErr("%s: unit method self.%s used as a value" % (w, name))
                if f.selfk == "mut":
                    raise TErr("%s: unsupported: value of a `&mut self` method self.%s" % (w, name))
                ga, ca = self.call_args(f, args, env, w)
                app = "(g_%s s%s)" % (name, "".join(" " + a for a in ga))
                return "(fst %s)" % app, conj(ca, "snd %s" % app), f.ret
            if name in ("min", "max"):
                if len(args) != 1:
                    raise TErr("%s: .%s with %d arguments" % (w, name, len(args)))
                ga, ca, ta = self.expr(recv, env, w, want)
                gb, cb, tb = self.expr(args[0], env, w, ta or want)
                ty = self.unify(ta, tb, w, "." + name)
                if ty not in INT + (None,):
                    raise TErr("%s: unsupported: .%s at type %s" % (w, name, ty))
                return "(Z.%s %s %s)" % (name, ga, gb), conj(ca, cb), ty
            if name == "clone" and not args:
                g, c, ty = self.expr(recv, env, w)
                if ty != "range":
                    raise TErr("%s: unsupported: .clone() at type %s" % (w, ty))
                return g, c, ty
            raise TErr("%s: unsupported method call .%s(..) as a value" % (w, name))
        if k == "call":
            f = self.need(e[1], False)
            if f.ret is None:
                raise TErr("%s: unit function %s used as a value" % (w, e[1]))
            ga, ca = self.call_args(f, e[2], env, w)
            app = "(g_%s%s)" % (e[1], "".join(" " + a for a in ga))
            return "(fst %s)" % app, conj(ca, "snd %s" % app), f.ret
        raise TErr("%s: unsupported expression node %s" % (w, k))

    def call_args(self, f, args, env, w):
        if len(args) != len(f.params):
            raise TErr("%s: call of %s with %d arguments (expected %d)" % (w, f.name, len(args), len(f.params)))
        gs, cs = [], []
        for a, (pn, pt) in zip(args, f.params):
            g, c, ty = self.expr(a, env, w, pt)
            if ty is not None and ty != pt:
                raise TErr("%s: argument %s of %s: type %s, expected %s" % (w, pn, f.name, ty, pt))
            if ty is None and pt not in INT:
                raise TErr("%s: argument %s of %s: integer literal at type %s" % (w, pn, f.name, pt))
            gs.append(g if g.startswith("(") or " " not in g else "(%s)" % g)
            cs.append(c)
        return gs, conj(*cs)

    def binop(self, e, env, w, want):
        op = e[1]
        if op in ("&&", "||"):
            ga, ca, ta = self.expr(e[2], env, w)
            gb, cb, tb = self.expr(e[3], env, w)
            if ta != "bool" or tb != "bool":
                raise TErr("%s: `%s` on non-bool operands" % (w, op))
            if cb is not None:     # short circuit: the right operand is charged only when evaluated
                cb = "(%s %s)" % ("negb %s ||" % ga if op == "&&" else "%s ||" % ga, paren_c(cb))
            return "(%s %s %s)" % (ga, op, gb), conj(ca, cb), "bool"
        ga, ca, ta = self.expr(e[2], env, w, want if op in "+-*/%" else None)
        gb, cb, tb = self.expr(e[3], env, w, ta)
        if ta is None and tb is not None:
            ga, ca, ta = self.expr(e[2], env, w, tb)
        ty = self.unify(ta, tb, w, "`%s`" % op)
        c = conj(ca, cb)
        if op in ("==", "!=", "<", "<=", ">", ">="):
            if ty == "bool" and op in ("==", "!="):
                g = "(Bool.eqb %s %s)" % (ga, gb)
                return ("(negb %s)" % g if op == "!=" else g), c, "bool"
            if ty not in INT + (None,):
                raise TErr("%s: unsupported: comparison `%s` at type %s" % (w, op, ty))
            if op in (">", ">="):          # a > b is emitted as b < a
                ga, gb, op = gb, ga, {">": "<", ">=": "<="}[op]
            g = {"==": "(%s =? %s)", "!=": "(negb (%s =? %s))", "<": "(%s <? %s)", "<=": "(%s <=? %s)"}[op] % (ga, gb)
            return g, c, "bool"
        if ty is None:
            ty = want
        if ty not in INT:
            raise TErr("%s: cannot determine the integer type of `%s` (needed for the underflow rule)" % (w, op))
        if ty == "u16" and op != "-":
            raise TErr("%s: unsupported: u16 arithmetic `%s` (overflow not modelled)" % (w, op))
        if op == "+" or op == "*":
            return "(%s %s %s)" % (ga, op, gb), c, ty
        if op == "-":
            if ty in UNSIGNED:
                c = conj(c, "(%s <=? %s)" % (gb, ga))
            return "(%s - %s)" % (ga, gb), c, ty
        if op in ("/", "%"):
            if ty not in UNSIGNED:
                raise TErr("%s: unsupported: signed `%s`" % (w, op))
            return "(%s %s %s)" % (ga, "/" if op == "/" else "mod", gb), conj(c, "(negb (%s =? 0))" % gb), ty
        raise TErr("%s: unsupported operator %s" % (w, op))

    def value_block(self, blk, env, w, want):
        stmts, tail = blk
        if stmts or tail is None:
            raise TErr("%s: unsupported: statements inside a value-producing block" % w)
        return self.expr(tail, env, w, want)

    # -- statements.  Emits `let .. in` lines over the shadowed names `s`, `ok`, `v_x`.
    def assigned(self, blk, acc):
        """locals assigned (not declared) inside a block, in order of first assignment"""
        stmts, tail = blk
        declared = set()
        for st in list(stmts) + ([("expr", tail)] if tail is not None else []):
            if st[0] == "let":
                declared.add(st[1])
            elif st[0] == "assign" and st[1][0] == "var":
                if st[1][1] not in declared and st[1][1] not in acc:
                    acc.append(st[1][1])
            elif st[0] == "expr" and st[1][0] in ("if", "match"):
                inner = []
                if st[1][0] == "if":
                    self.assigned(st[1][2], inner)
                    if st[1][3] is not None:
                        self.assigned(st[1][3], inner)
                else:
                    for _, b in st[1][2]:
                        self.assigned(b, inner)
                for x in inner:
                    if x not in declared and x not in acc:
                        acc.append(x)
        return acc

    def charge(self, c, lines, ind):
        if c is not None:
            lines.append("%slet ok := ok && %s in" % (ind, c))

    def stmt_block(self, blk, env, f, lines, ind, nested=True):
        """unit-context block; env is copied (block scoping), assignments to outer locals persist by
        shadowing because the caller re-binds them from the tuple this block ends with"""
        outer, env = env, dict(env)
        stmts, tail = blk
        for st in list(stmts) + ([("expr", tail)] if tail is not None else []):
            if nested and st[0] == "let" and st[1] in outer:
                raise TErr("%s: unsupported: `let %s` shadows an outer variable inside a nested block" % (f.name, st[1]))
            self.stmt(st, env, f, lines, ind)

    def stmt(self, st, env, f, lines, ind):
        w = f.name
        if st[0] == "let":
            g, c, ty = self.expr(st[2], env, w)
            if ty is None:
                raise TErr("%s: cannot determine the type of `let %s`" % (w, st[1]))
            self.charge(c, lines, ind)
            lines.append("%slet v_%s := %s in" % (ind, st[1], g))
            env[st[1]] = ty
            return
        if st[0] == "assign":
            lhs, op, rhs = st[1], st[2], st[3]
            if op != "=":
                rhs = ("bin", op[0], lhs, rhs)
            if lhs[0] == "var":
                if lhs[1] not in env:
                    raise TErr("%s: assignment to unknown variable %s" % (w, lhs[1]))
                g, c, ty = self.expr(rhs, env, w, env[lhs[1]])
                if ty is not None and ty != env[lhs[1]]:
                    raise TErr("%s: assignment to %s: type %s, expected %s" % (w, lhs[1], ty, env[lhs[1]]))
                self.charge(c, lines, ind)
                lines.append("%slet v_%s := %s in" % (ind, lhs[1], g))
                return
            pl = self.place(lhs, w)
            if pl is None:
                raise TErr("%s: unsupported assignment target" % w)
            if pl not in FIELD:
                raise TErr("%s: unsupported: write to self.%s (not a scalar field of the tie)" % (w, pl))
            if f.selfk != "mut":
                raise TErr("%s: write to self.%s without `&mut self`" % (w, pl))
            z, fty = FIELD[pl]
            g, c, ty = self.expr(rhs, env, w, fty)
            if ty is not None and ty != fty:
                raise TErr("%s: write to self.%s: type %s, expected %s" % (w, pl, ty, fty))
            if ty is None and fty not in INT:
                raise TErr("%s: write to self.%s: integer literal at type %s" % (w, pl, fty))
            self.charge(c, lines, ind)
            lines.append("%slet s := set_%s %s s in" % (ind, z, g))
            return
        e = st[1]
        if e[0] == "if":
            gc, cc, tc = self.expr(e[1], env, w)
            if tc != "bool":
                raise TErr("%s: `if` condition of type %s" % (w, tc))
            self.charge(cc, lines, ind)
            muts = self.assigned(e[2], [])
            if e[3] is not None:
                self.assigned(e[3], muts)
            muts = [m for m in muts if m in env]
            tup = ", ".join(["s", "ok"] + ["v_" + m for m in muts])
            lines.append("%slet '(%s) := if %s then" % (ind, tup, gc))
            self.stmt_block(e[2], env, f, lines, ind + "    ")
            lines.append("%s    (%s)" % (ind, tup))
            lines.append("%s  else" % ind)
            if e[3] is not None:
                self.stmt_block(e[3], env, f, lines, ind + "    ")
            lines.append("%s    (%s) in" % (ind, tup))
            return
        if e[0] == "match":
            raise TErr("%s: unsupported: `match` as a statement" % w)
        if e[0] == "mcall" and e[1][0] == "self":
            g = self.need(e[2], True)
            if g.ret is not None:
                raise TErr("%s: unsupported: value of self.%s discarded" % (w, e[2]))
            if g.selfk == "mut" and f.selfk != "mut":
                raise TErr("%s: `&mut self` method called without `&mut self`" % w)
            ga, ca = self.call_args(g, e[3], env, w)
            self.charge(ca, lines, ind)
            lines.append("%slet '(s, okc) := g_%s s%s in" % (ind, e[2], "".join(" " + a for a in ga)))
            lines.append("%slet ok := ok && okc in" % ind)
            return
        if e[0] == "mcall":
            pl = self.place(e[1], w)
            if pl is not None and (pl, e[2]) in EXTERN:
                ctor, kinds = EXTERN[(pl, e[2])]
                if len(kinds) != len(e[3]):
                    raise TErr("%s: self.%s.%s with %d arguments" % (w, pl, e[2], len(e[3])))
                if f.selfk != "mut":
                    raise TErr("%s: self.%s.%s without `&mut self`" % (w, pl, e[2]))
                gs, cs = [], []
                for a, kind in zip(e[3], kinds):
                    if kind == "pen":
                        if a != ("ref", ("field", ("self",), "pen")):
                            raise TErr("%s: self.%s.%s: expected `&self.pen`" % (w, pl, e[2]))
                        continue
                    g, c, ty = self.expr(a, env, w, "usize")
                    if kind == "i":
                        if ty not in ("usize", None):
                            raise TErr("%s: self.%s.%s: argument of type %s" % (w, pl, e[2], ty))
                        gs.append(g if g.startswith("(") or " " not in g else "(%s)" % g)
                    else:
                        if ty != "range":
                            raise TErr("%s: self.%s.%s: expected a range" % (w, pl, e[2]))
                        gs += ["(fst %s)" % g, "(snd %s)" % g]
                    cs.append(c)
                self.charge(conj(*cs), lines, ind)
                lines.append("%slet s := z_emit (%s) s in" % (ind, " ".join([ctor] + gs)))
                return
            raise TErr("%s: unsupported call %s.%s(..)" % (w, "self." + pl if pl is not None else "<expr>", e[2]))
        if e[0] == "call":
            raise TErr("%s: unsupported: free function call %s(..) as a statement" % (w, e[1]))
        raise TErr("%s: unsupported expression statement (%s)" % (w, e[0]))

    def emit_fn(self, f):
        env = {}
        for n, ty in f.params:
            env[n] = ty
        ps = "".join(" (v_%s : %s)" % (n, COQ_TY[ty]) for n, ty in f.params)
        sarg = " (s : zt)" if f.selfk else ""
        lines = ["  let ok := true in"]
        stmts, tail = f.body
        if f.ret is None:
            if f.selfk != "mut":
                raise TErr("%s: unsupported: unit function without `&mut self`" % f.name)
            self.stmt_block(f.body, env, f, lines, "  ", nested=False)
            lines.append("  (s, ok).")
            rty = "zt * bool"
        else:
            if f.selfk == "mut":
                raise TErr("%s: unsupported: `&mut self` method returning a value" % f.name)
            if tail is None:
                raise TErr("%s: no tail expression" % f.name)
            for st in stmts:
                self.stmt(st, env, f, lines, "  ")
            g, c, ty = self.expr(tail, env, f.name, f.ret)
            if ty is not None and ty != f.ret:
                raise TErr("%s: returns %s, declared %s" % (f.name, ty, f.ret))
            self.charge(c, lines, "  ")
            lines.append("  (%s, ok)." % g)
            rty = "%s * bool" % COQ_TY[f.ret]
        return "Definition g_%s%s%s : %s :=\n%s\n" % (f.name, sarg, ps, rty, "\n".join(lines))


# ------------------------------------------------------------------------------ struct check + execute map

def struct_fields(toks, name):
    for i in range(len(toks) - 2):
        if toks[i] == ("id", "struct") and toks[i + 1] == ("id", name) and toks[i + 2] == ("punct", "{"):
            c = match_close(toks, i + 2)
            out, cur, d = {}, [], 0
            for k, t in toks[i + 3:c] + [("punct", ",")]:
                if k == "punct" and t in "([{<":
                    d += 1
                elif k == "punct" and t in ")]}>":
                    d -= 1
                if d == 0 and (k, t) == ("punct", ","):
                    cur = [x for x in cur if x[1] not in ("pub", "crate") and x != ("punct", "(") and x != ("punct", ")")]
                    if cur:
                        if cur[1] != ("punct", ":"):
                            raise TErr("struct %s: cannot parse field %s" % (name, text(cur)))
                        out[cur[0][1]] = text(cur[2:])
                    cur = []
                else:
                    cur.append((k, t))
            return out
    raise TErr("struct %s not found" % name)


def check_structs(term, cur):
    tf, cf = struct_fields(term, "Terminal"), struct_fields(cur, "Cursor")
    want = {"cols": "usize", "rows": "usize", "pending_wrap": "bool", "top_margin": "usize", "bottom_margin": "usize",
            "origin_mode": "bool", "new_line_mode": "bool", "active_charset": "usize", "cursor": "Cursor",
            "charsets": "[ Charset ; 2 ]"}
    for k, v in want.items():
        if tf.get(k) != v:
            raise TErr("struct Terminal: field %s has type %s (expected %s)" % (k, tf.get(k), v))
    for k in ("col", "row"):
        if cf.get(k) != "usize":
            raise TErr("struct Cursor: field %s has type %s (expected usize)" % (k, cf.get(k)))


def exec_map(term, em):
    """Terminal::execute: `Ctor(a, b) => { self.m(a, b); }` arms; returns [(ctor, binders, method, args)]"""
    lo, hi = find_impl(term, ["Terminal"])
    _, bo, bc = find_fn(term, "execute", lo, hi)
    body = term[bo + 1:bc]
    if not text(body).startswith("use Function :: * ; match fun {"):
        raise TErr("Terminal::execute: unexpected shape")
    mo = body.index(("punct", "{"), body.index(("id", "match")))
    mc = match_close(body, mo)
    if mc != len(body) - 1:
        raise TErr("Terminal::execute: trailing tokens")
    out = []
    for pat, b, is_block in parse_match_arms(body[mo + 1:mc]):
        if pat[0][0] != "id" or (len(pat) > 1 and (pat[1] != ("punct", "(") or pat[-1] != ("punct", ")"))):
            raise TErr("Terminal::execute: unsupported pattern " + text(pat))
        binders = [text(x) for x in split_top(pat[2:-1], ",")] if len(pat) > 1 else []
        if b and b[-1] == ("punct", ";"):
            b = b[:-1]
        if not (len(b) >= 5 and text(b[:2]) == "self ." and b[2][0] == "id" and b[3] == ("punct", "(")
                and match_close(b, 3) == len(b) - 1):
            raise TErr("Terminal::execute: arm %s is not a plain forward: %s" % (pat[0][1], text(b)))
        args = [text(x) for x in split_top(b[4:-1], ",")]
        if any(len(x.split()) != 1 for x in binders + args):
            raise TErr("Terminal::execute: arm %s: unsupported binder/argument" % pat[0][1])
        out.append((pat[0][1], binders, b[2][1], args))
    return out


# ------------------------------------------------------------------------------ driver

PRELUDE = """From Coq Require Import List ZArith Bool.
From Avt Require Import Model.Types.
Import ListNotations.
Local Open Scope Z_scope.
Local Open Scope bool_scope.

(** calls that leave the scalar world, with their evaluated arguments *)
Inductive zev :=
%(events)s.

(** the scalar fields of [Terminal] (usize as Z); [z_ev]: external calls, most recent first *)
Record zt := mkZt {
%(fields)s;
  z_ev : list zev
}.

%(setters)s
Definition z_emit (e : zev) (s : zt) : zt :=
  mkZt %(allf)s (e :: z_ev s).

"""


def gen_termfns(term, cur, hdr):
    check_structs(term, cur)
    em = Emitter(term)
    for r in ROOTS:
        em.need(r, r != "as_usize")
    zf = [(z, COQ_TY[ty]) for _, z, ty in FIELDS]
    setters = ""
    for z, ty in zf:
        setters += "Definition set_%s (v : %s) (s : zt) : zt :=\n  mkZt %s (z_ev s).\n" % (
            z, ty, " ".join("v" if z2 == z else "(%s s)" % z2 for z2, _ in zf))
    v = hdr + PRELUDE % {
        "events": "\n".join("| %s%s" % (c, " (%s : Z)" % " ".join("abc"[:n]) if n else "") for c, n in EVENTS),
        "fields": ";\n".join("  %s : %s" % (z, ty) for z, ty in zf),
        "setters": setters,
        "allf": " ".join("(%s s)" % z for z, _ in zf),
    }
    v += "\n".join(d for _, d in em.out)
    # the Terminal::execute arms that forward to a translated function
    arms = exec_map(term, em)
    v += "\n(** [Terminal::execute]: the arms that forward to the functions above *)\n"
    v += "Definition g_execute (s : zt) (f : func) : option (zt * bool) :=\n  match f with\n"
    n_arm = 0
    for ctor, binders, meth, args in arms:
        if meth not in em.fns:
            continue
        f = em.fns[meth]
        if len(args) != len(f.params) or sorted(args) != sorted(binders) or f.selfk != "mut" or f.ret is not None:
            raise TErr("Terminal::execute: arm %s does not match the signature of %s" % (ctor, meth))
        conv = []
        for a, (pn, pt) in zip(args, f.params):
            conv.append({"u16": "(Z.of_N %s)", "Charset": "%s"}.get(pt, None))
            if conv[-1] is None:
                raise TErr("Terminal::execute: arm %s: parameter type %s" % (ctor, pt))
            conv[-1] = conv[-1] % ("a_" + a)
        v += "  | %s => Some (g_%s s%s)\n" % (" ".join([ctor] + ["a_" + b for b in binders]), meth,
                                             "".join(" " + c for c in conv))
        n_arm += 1
    v += "  | _ => None\n  end.\n"
    return v, [n for n, _ in em.out], n_arm
