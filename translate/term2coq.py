"""term2coq: the SCALAR control functions of src/terminal.rs as Gallina over Z (Gen/TermFns.v).

The method bodies are parsed (tokens from rustlex) into a small AST and re-emitted as
functions over a record `zt` of the scalar fields.  Semantics of the emitted code:

  * `usize` / `isize` / `u16` values are plain `Z`; `+ *` are `Z` operations (no overflow
    is modelled), `.min/.max` are `Z.min/Z.max`, comparisons are `Z` comparisons;
  * `a - b` at an unsigned type adds the side condition `b <= a` (Rust: panic in debug
    builds, wrap-around in release builds); `x as usize` adds `0 <= x`; `x as isize` is the
    identity; `/` and `%` (unsigned only) add `b <> 0`;
  * `fn f(&mut self, a..)`  ->  `g_f (s : zt) (a.. : Z) : zt * bool`
    `fn f(&self, a..) -> T` ->  `g_f (s : zt) (a.. : Z) : T * bool`
    `fn f(a..) -> T`        ->  `g_f (a.. : Z) : T * bool`
    the bool is the conjunction of the side conditions met on the executed path (`&&`,
    `||`, `if` and `match` only charge the evaluated operands / the taken branch);
  * calls that leave the scalar world (buffer, tabs, dirty lines) are recorded, with their
    already evaluated arguments, in the event list `z_ev` (most recent first).

Anything outside this fragment raises TErr naming the construct: the caller prints
TRANSLATE-ERROR and exits 2 (a broken tie).  Nothing is skipped silently: every function
reachable from ROOTS is translated completely or not at all.
"""
from rustlex import char_value, find_fn, find_impl, match_close, num_value, parse_match_arms, split_top, text


class TErr(Exception):
    pass


# Rust place -> (zt field, type).  The declared types are checked against the structs.
FIELDS = [
    ("cols", "z_cols", "usize"), ("rows", "z_rows", "usize"),
    ("cursor.col", "z_col", "usize"), ("cursor.row", "z_row", "usize"),
    ("pending_wrap", "z_pend", "bool"),
    ("top_margin", "z_top", "usize"), ("bottom_margin", "z_bot", "usize"),
    ("origin_mode", "z_org", "bool"), ("new_line_mode", "z_nlm", "bool"),
    ("active_charset", "z_acs", "usize"),
    ("charsets[0]", "z_cs0", "Charset"), ("charsets[1]", "z_cs1", "Charset"),
    ("insert_mode", "z_ins", "bool"), ("auto_wrap_mode", "z_awm", "bool"),
    ("cursor.visible", "z_vis", "bool"), ("cursor_keys_mode", "z_ckm", "CursorKeysMode"),
]
FIELD = {p: (z, ty) for p, z, ty in FIELDS}
COQ_TY = {"usize": "Z", "isize": "Z", "u16": "Z", "bool": "bool", "Charset": "charset", "range": "(Z * Z)",
          "char": "Z", "cell": "zcell", "erase": "zerase", "pair": "(Z * Z)", "opt_usize": "(option Z)",
          "CursorKeysMode": "bool"}
# Rust enums that may be matched on / passed around: name -> (Coq type, {variant: Coq constructor})
ENUMS = {
    "EdScope": ("ed_scope", {"Below": "EdBelow", "Above": "EdAbove", "All": "EdAll", "SavedLines": "EdSavedLines"}),
    "ElScope": ("el_scope", {"ToRight": "ElToRight", "ToLeft": "ElToLeft", "All": "ElAll"}),
    "CtcOp": ("ctc_op", {"Set": "CtcSet", "ClearCurrentColumn": "CtcClearCurrentColumn", "ClearAll": "CtcClearAll"}),
    "TbcScope": ("tbc_scope", {"CurrentColumn": "TbcCurrentColumn", "All": "TbcAll"}),
    "AnsiMode": ("ansi_mode", {"Insert": "Insert", "NewLine": "NewLine"}),
    "DecMode": ("dec_mode", {k: k for k in ("CursorKeys", "Origin", "AutoWrap", "TextCursorEnable", "AltScreenBuffer",
                                            "SaveCursor", "SaveCursorAltScreenBuffer")}),
    "BufferType": ("btype", {"Primary": "Primary", "Alternate": "Alternate"}),
    "Ordering": ("comparison", {"Less": "Lt", "Equal": "Eq", "Greater": "Gt"}),
}
COQ_TY["XtwinopsOp"] = "xtwinops_op"
# irrefutable `let Enum::Variant(a, b) = e;` : (enum, variant) -> (Coq constructor, component types)
LETPATS = {("XtwinopsOp", "Resize"): ("XtwinopsResize", ["u16", "u16"])}
# non-scalar places that W-mode functions may READ (pure interface fields) ...
WREAD = {"buffer.cols": ("q_buf_cols", "usize"), "saved_ctx.cursor_col": ("q_sctx_col", "usize"),
         "saved_ctx.cursor_row": ("q_sctx_row", "usize"), "saved_ctx.origin_mode": ("q_sctx_org", "bool"),
         "saved_ctx.auto_wrap_mode": ("q_sctx_awm", "bool"), "xtwinops": ("q_xtw", "bool"),
         "active_buffer_type": ("q_active", "BufferType")}
# ... and WRITE (events carrying the evaluated right-hand side)
WWRITE = {"saved_ctx.cursor_col": ("EvSctxCol", "usize"), "saved_ctx.cursor_row": ("EvSctxRow", "usize"),
          "saved_ctx.origin_mode": ("EvSctxOrg", "bool"), "saved_ctx.auto_wrap_mode": ("EvSctxAwm", "bool"),
          "active_buffer_type": ("EvActive", "BufferType")}
# whole-value moves between non-scalar places: (target place, source place) -> event
WMOVE = {("saved_ctx.pen", "pen"): "EvSctxPenSave", ("pen", "saved_ctx.pen"): "EvPenRestore"}
WSWAP = {("saved_ctx", "alternate_saved_ctx"): "EvSwapCtx", ("buffer", "other_buffer"): "EvSwapBuf"}
for _e, (_ct, _) in ENUMS.items():
    COQ_TY[_e] = _ct
    COQ_TY["Vec<%s>" % _e] = "(list %s)" % _ct
# enum constants that are plain values of another type
CONSTS = {("CursorKeysMode", "Normal"): ("false", "CursorKeysMode"), ("CursorKeysMode", "Application"): ("true", "CursorKeysMode")}
ERASE = {"NextChars": 1, "FromCursorToEndOfView": 0, "FromStartOfViewToCursor": 0, "WholeView": 0,
         "FromCursorToEndOfLine": 0, "FromStartOfLineToCursor": 0, "WholeLine": 0}
INT = ("usize", "isize", "u16")
UNSIGNED = ("usize", "u16")

# calls that leave the scalar world: (receiver place, method) -> (event ctor, argument kinds)
#   'i' an integer argument, 'r' a range (two integers), 'p' a position tuple (two integers),
#   'pen' the literal `&self.pen`, 'cell' a cell expression, 'erase' an EraseMode expression
EXTERN = {
    ("buffer", "print"): ("EvBufPrint", ["p", "cell"]),
    ("buffer", "insert"): ("EvBufInsert", ["p", "i", "cell"]),
    ("buffer", "delete"): ("EvBufDelete", ["p", "i", "pen"]),
    ("buffer", "erase"): ("EvBufErase", ["p", "erase", "pen"]),
    ("buffer", "wrap"): ("EvBufWrap", ["i"]),
    ("dirty_lines", "add"): ("EvDirtyAdd", ["i"]),
    ("dirty_lines", "resize"): ("EvDirtyResize", ["i"]),
    ("tabs", "contract"): ("EvTabsContract", ["i"]),
    ("tabs", "expand"): ("EvTabsExpand", ["i", "i"]),
    ("tabs", "set"): ("EvTabSet", ["i"]),
    ("tabs", "unset"): ("EvTabUnset", ["i"]),
    ("tabs", "clear"): ("EvTabsClear", []),
    ("buffer", "scroll_up"): ("EvBufScrollUp", ["r", "i", "pen"]),
    ("buffer", "scroll_down"): ("EvBufScrollDown", ["r", "i", "pen"]),
    ("dirty_lines", "extend"): ("EvDirtyExtend", ["r"]),
}
EVENTS = [("EvTabSet", "(a : Z)"), ("EvTabUnset", "(a : Z)"), ("EvTabsClear", ""), ("EvBufScrollUp", "(a b c : Z)"),
          ("EvBufScrollDown", "(a b c : Z)"), ("EvDirtyExtend", "(a b : Z)"),
          ("EvBufPrint", "(c r : Z) (x : zcell)"), ("EvBufInsert", "(c r n : Z) (x : zcell)"),
          ("EvBufDelete", "(c r n : Z)"), ("EvBufErase", "(c r : Z) (m : zerase)"), ("EvBufWrap", "(r : Z)"),
          ("EvDirtyAdd", "(r : Z)"), ("EvDirtyResize", "(n : Z)"), ("EvTabsContract", "(c : Z)"),
          ("EvTabsExpand", "(a b : Z)"), ("EvSctxCol", "(v : Z)"), ("EvSctxRow", "(v : Z)"),
          ("EvSctxOrg", "(v : bool)"), ("EvSctxAwm", "(v : bool)"), ("EvSctxPenSave", ""), ("EvPenRestore", ""),
          ("EvActive", "(b : btype)"), ("EvSwapCtx", ""), ("EvSwapBuf", ""), ("EvBufNewAlt", "(c r : Z)")]
# queries: calls into the non-scalar world that return a value (W-mode functions only)
#   (receiver place, method) -> (interface field, argument kinds, result type)
QUERIES = {
    ("tabs", "after"): ("q_tabs_after", ["i", "i"], "opt_usize"),
    ("tabs", "before"): ("q_tabs_before", ["i", "i"], "opt_usize"),
}

# the functions whose translation is delivered (callees are pulled in on demand)
# the functions emitted in the original trace style `zt -> .. -> zt * bool` (events in [z_ev]); every other
# function is emitted in W-mode: `zops W -> zt -> W -> .. -> option (zt * W * bool)`
ROOTS = ["as_usize", "do_move_cursor_to_col", "move_cursor_to_col", "do_move_cursor_to_row",
         "actual_top_margin", "actual_bottom_margin", "move_cursor_to_row", "move_cursor_to_rel_col",
         "move_cursor_home", "cursor_down", "cursor_up", "bs", "cr", "so", "si", "gzd4", "g1d4",
         "cuu", "cud", "cuf", "cub", "cnl", "cpl", "cha", "cup", "vpa", "vpr", "decstbm",
         "set_tab", "clear_tab", "clear_all_tabs", "scroll_up_in_region", "scroll_down_in_region",
         "move_cursor_down_with_scroll", "lf", "nel", "ri", "il", "dl", "su", "sd", "hts"]
OLD = set(ROOTS)
# methods performed as ONE opaque step on the whole state (interface field [op_full]): their bodies are tied to
# the source by Gen/Resets.v (save/restore_cursor, soft/hard_reset) or not by this translator (the others)
OPAQUE = {"save_cursor": ("XSaveCursor", []), "restore_cursor": ("XRestoreCursor", []),
          "soft_reset": ("XSoftReset", []), "hard_reset": ("XHardReset", []),
          "switch_to_alternate_buffer": ("XSwitchAlt", []), "switch_to_primary_buffer": ("XSwitchPrimary", []),
          "reflow": ("XReflow", []), "sgr": ("XSgr", ["Vec<SgrOp>"]), "xtwinops": ("XXtwinops", ["XtwinopsOp"])}
for _m in ("save_cursor", "restore_cursor", "switch_to_alternate_buffer", "switch_to_primary_buffer", "reflow",
           "xtwinops"):
    del OPAQUE[_m]          # now translated (the zfull constructors stay, unused, for interface stability)
ROOTS_W = ["save_cursor", "restore_cursor", "switch_to_alternate_buffer", "switch_to_primary_buffer", "reflow",
           "resize", "xtwinops", "sc", "rc", "ris", "decstr", "decset", "decrst", "print", "ich", "dch", "ech", "ed", "el", "decaln", "rep", "move_cursor_to_next_tab",
           "move_cursor_to_prev_tab", "ht", "cht", "cbt", "ctc", "tbc", "sm", "rm"]

# binary operators, lowest precedence first (`..` and `as` are handled separately)
BINOPS = [("||",), ("&&",), ("==", "!=", "<", "<=", ">", ">="), ("+", "-"), ("*", "/", "%")]


# ------------------------------------------------------------------------------ parser

class Parser:
    """Recursive descent over rustlex tokens.  AST nodes are tuples:
       expressions  ('num', n) ('bool', b) ('char', n) ('var', x) ('self',) ('field', e, name) ('index', e, e)
                    ('tuple', [e]) ('path', [seg], args|None)
                    ('neg', e) ('not', e) ('ref', e) ('bin', op, a, b) ('cast', e, ty) ('range', a, b)
                    ('mcall', recv, name, args) ('call', name, args) ('paren', e)
                    ('if', cond, block, block|None) ('match', e, [(pat, block)])
                    pat = ('pbool', b) | ('pwild',) | ('ppath', [seg])
       statements   ('let', x, e) ('assign', lhs, op, e) ('expr', e) ('for', x, e, block)
       block        (stmts, tail_expr|None)"""

    def __init__(self, toks, where):
        self.t, self.i, self.where = toks, 0, where

    def err(self, what):
        raise TErr("%s: %s near: %s" % (self.where, what, text(self.t[max(0, self.i - 5):self.i + 8])))

    def peek(self, off=0):
        return self.t[self.i + off] if self.i + off < len(self.t) else (None, None)

    def at(self, txt, off=0):
        k, t = self.peek(off)
        return t == txt and k in ("punct", "id")

    def eat(self, txt=None, kind=None):
        k, t = self.peek()
        if k is None or (txt is not None and t != txt) or (kind is not None and k != kind):
            self.err("expected %s, found %r" % (repr(txt) if txt else kind, t))
        self.i += 1
        return t

    # -- blocks and statements
    def block(self):
        self.eat("{")
        stmts, tail = [], None
        while not self.at("}"):
            if tail is not None:
                self.err("expression without `;` in the middle of a block")
            if self.at("let"):
                self.eat()
                if self.at("mut"):
                    self.eat()
                name = self.eat(kind="id")
                if self.at("::"):               # irrefutable enum pattern: let Enum::Variant(a, b) = e;
                    segs = [name]
                    while self.at("::"):
                        self.eat()
                        segs.append(self.eat(kind="id"))
                    self.eat("(")
                    names = []
                    while not self.at(")"):
                        names.append(self.eat(kind="id"))
                        if not self.at(")"):
                            self.eat(",")
                    self.eat(")")
                    self.eat("=")
                    e = self.expr()
                    self.eat(";")
                    stmts.append(("letpat", segs, names, e))
                    continue
                ann = None
                if self.at(":"):
                    self.eat()
                    ann = self.eat(kind="id")
                self.eat("=")
                e = self.expr()
                self.eat(";")
                stmts.append(("let", name, e, ann))
                continue
            if self.at("use"):                 # `use Enum::*;` only (patterns are resolved by the scrutinee type)
                self.eat()
                en = self.eat(kind="id")
                if en not in ENUMS or not (self.at("::") and self.at("*", 1) and self.at(";", 2)):
                    self.err("unsupported `use` statement")
                self.i += 3
                continue
            if self.at("for"):
                self.eat()
                var = self.eat(kind="id")
                self.eat("in")
                it = self.expr()
                stmts.append(("for", var, it, self.block()))
                continue
            if self.peek()[0] == "id" and self.peek()[1] in ("return", "while", "loop", "break",
                                                             "continue", "unsafe", "fn", "const", "static"):
                self.err("unsupported statement `%s`" % self.peek()[1])
            e = self.expr()
            k, t = self.peek()
            if t in ("=", "+=", "-=") and k == "punct":
                self.eat()
                rhs = self.expr()
                self.eat(";")
                stmts.append(("assign", e, t, rhs))
            elif t == ";":
                self.eat()
                stmts.append(("expr", e))
            elif e[0] in ("if", "match") and not self.at("}"):
                stmts.append(("expr", e))          # block-like expression statement
            elif self.at("}"):
                tail = e
            else:
                self.err("unsupported statement form (after an expression: %r)" % t)
        self.eat("}")
        return (stmts, tail)

    # -- expressions
    def expr(self):
        a = self.binary(0)
        if self.at(".."):
            self.eat()
            return ("range", a, self.binary(0))
        if self.at("..="):
            self.err("unsupported operator `..=`")
        return a

    def binary(self, lvl):
        if lvl == len(BINOPS):
            return self.cast()
        a = self.binary(lvl + 1)
        while self.peek()[0] == "punct" and self.peek()[1] in BINOPS[lvl]:
            op = self.eat()
            b = self.binary(lvl + 1)
            a = ("bin", op, a, b)
            if lvl == 2 and self.peek()[1] in BINOPS[2] and self.peek()[0] == "punct":
                self.err("chained comparison")
        return a

    def cast(self):
        e = self.unary()
        while self.at("as"):
            self.eat()
            e = ("cast", e, self.eat(kind="id"))
        return e

    def unary(self):
        if self.at("-"):
            self.eat()
            return ("neg", self.unary())
        if self.at("!"):
            self.eat()
            return ("not", self.unary())
        if self.at("&"):
            self.eat()
            if self.at("mut"):
                self.eat()
                return ("refmut", self.unary())
            return ("ref", self.unary())
        if self.at("*"):
            self.err("unsupported: dereference")
        return self.postfix()

    def args(self):
        self.eat("(")
        out = []
        while not self.at(")"):
            out.append(self.expr())
            if not self.at(")"):
                self.eat(",")
        self.eat(")")
        return out

    def postfix(self):
        e = self.primary()
        while True:
            if self.at("."):
                self.eat()
                k, name = self.peek()
                if k != "id":
                    self.err("unsupported: `.%s`" % name)
                self.eat()
                if self.at("("):
                    e = ("mcall", e, name, self.args())
                else:
                    e = ("field", e, name)
            elif self.at("["):
                self.eat()
                ix = self.expr()
                self.eat("]")
                e = ("index", e, ix)
            elif self.at("?"):
                self.err("unsupported operator `?`")
            else:
                return e

    def primary(self):
        k, t = self.peek()
        if k == "num":
            self.eat()
            for suf in ("u8", "u16", "u32", "u64", "i32", "i64", "usize", "isize"):
                if t.endswith(suf):
                    self.err("unsupported: suffixed literal " + t)
            return ("num", num_value(t))
        if k == "char":
            self.eat()
            return ("char", char_value(t))
        if k == "punct" and t == "(":
            self.eat()
            e = self.expr()
            if self.at(","):
                es = [e]
                while self.at(","):
                    self.eat()
                    if not self.at(")"):
                        es.append(self.expr())
                self.eat(")")
                return ("tuple", es)
            self.eat(")")
            return ("paren", e)
        if k == "id":
            if t in ("true", "false"):
                self.eat()
                return ("bool", t == "true")
            if t == "self":
                self.eat()
                return ("self",)
            if t == "if":
                self.eat()
                if self.at("let"):                  # if let Enum::Variant = e { .. }
                    self.eat()
                    segs = [self.eat(kind="id")]
                    while self.at("::"):
                        self.eat()
                        segs.append(self.eat(kind="id"))
                    self.eat("=")
                    c = ("islet", segs, self.expr())
                else:
                    c = self.expr()
                b1 = self.block()
                b2 = None
                if self.at("else"):
                    self.eat()
                    if self.at("if"):
                        b2 = ([], self.primary())      # else-if chain: a block whose tail is the nested if
                    else:
                        b2 = self.block()
                return ("if", c, b1, b2)
            if t == "match":
                self.eat()
                scrut = self.expr()
                self.eat("{")
                arms = []
                while not self.at("}"):
                    pk, pat = self.peek()
                    if pk != "id":
                        self.err("unsupported match pattern")
                    self.eat()
                    if pat in ("true", "false"):
                        pat = ("pbool", pat == "true")
                    elif pat == "_":
                        pat = ("pwild",)
                    else:
                        segs = [pat]
                        while self.at("::"):
                            self.eat()
                            segs.append(self.eat(kind="id"))
                        pat = ("ppath", segs)
                    if not self.at("=>"):
                        self.err("unsupported match pattern (binders, guards and alternatives are not supported)")
                    self.eat("=>")
                    if self.at("{"):
                        body = self.block()
                        if self.at(","):
                            self.eat()
                    else:
                        body = ([], self.expr())
                        if not self.at("}"):
                            self.eat(",")
                    arms.append((pat, body))
                self.eat("}")
                return ("match", scrut, arms)
            if t in ("let", "mut", "return", "for", "while", "loop", "move", "unsafe", "as", "else", "fn"):
                self.err("unexpected keyword `%s`" % t)
            self.eat()
            if self.at("::"):
                segs = [t]
                while self.at("::"):
                    self.eat()
                    segs.append(self.eat(kind="id"))
                return ("path", segs, self.args() if self.at("(") else None)
            if self.at("!"):
                self.err("unsupported: macro call %s!" % t)
            if self.at("("):
                return ("call", t, self.args())
            if self.at("{") and t[0].isupper():
                self.err("unsupported: struct literal " + t)
            return ("var", t)
        self.err("unsupported expression start %r" % t)


def parse_sig(toks, fs, bo, where):
    """toks[fs] = `fn`; returns (self_kind in {None,'ref','mut'}, [(name, ty)], ret_ty|None)"""
    p = Parser(toks[fs:bo], where)
    p.eat("fn")
    p.eat(kind="id")
    if p.at("<"):
        p.err("unsupported: generic function")
    p.eat("(")
    selfk, params = None, []
    if p.at("&"):
        p.eat()
        selfk = "ref"
        if p.at("mut"):
            p.eat()
            selfk = "mut"
        p.eat("self")
        if not p.at(")"):
            p.eat(",")
    elif p.at("self") or (p.at("mut") and p.at("self", 1)):
        p.err("unsupported: by-value self")
    while not p.at(")"):
        if p.at("mut"):
            p.eat()
        name = p.eat(kind="id")
        p.eat(":")
        ty = p.eat(kind="id")
        if ty == "Vec" and p.at("<"):
            p.eat()
            ty = "Vec<%s>" % p.eat(kind="id")
            p.eat(">")
        if ty not in COQ_TY or ty in ("range", "cell", "erase", "pair", "opt_usize"):
            p.err("unsupported parameter type " + ty)
        params.append((name, ty))
        if not p.at(")"):
            p.eat(",")
    p.eat(")")
    ret = None
    if p.at("->"):
        p.eat()
        ret = p.eat(kind="id")
        if ret not in ("usize", "isize", "bool"):
            p.err("unsupported return type " + ret)
    if p.i != len(p.t):
        p.err("unsupported signature tail")
    return selfk, params, ret


# ------------------------------------------------------------------------------ emitter

def conj(*cs):
    cs = [c for c in cs if c is not None]
    if not cs:
        return None
    return " && ".join(cs)


def paren_c(c):
    return None if c is None else "(%s)" % c


class Fn:
    def __init__(self, name, selfk, params, ret, body):
        self.name, self.selfk, self.params, self.ret, self.body = name, selfk, params, ret, body
        self.wmode = name not in OLD       # W-mode: threads the non-scalar world, may query it
        self.pfx = "w_" if self.wmode else "g_"


class Emitter:
    def __init__(self, toks):
        self.toks = toks
        self.lo, self.hi = find_impl(toks, ["Terminal"])
        self.fns = {}          # name -> Fn (translated)
        self.out = []          # (name, gallina definition) in dependency order
        self.busy = []
        self.cur = None        # the function being emitted
        self.pre = []          # hoisted queries of the statement being emitted: (pattern, term)
        self.qn = 0
        self.cdepth = 0        # > 0 inside conditionally evaluated sub-expressions
        self.closers = []

    # -- locating and translating functions on demand
    def need(self, name, is_method):
        if name in self.fns:
            f = self.fns[name]
        else:
            if name in self.busy:
                raise TErr("recursion through %s" % name)
            try:
                if is_method:
                    fs, bo, bc = find_fn(self.toks, name, self.lo, self.hi)
                else:
                    fs, bo, bc = find_fn(self.toks, name)
                    if self.lo < fs < self.hi:
                        raise TErr("%s: called as a free function but defined in impl Terminal" % name)
            except Exception as e:          # LexError from find_fn
                if isinstance(e, TErr):
                    raise
                raise TErr("function %s not found (%s)" % (name, e))
            selfk, params, ret = parse_sig(self.toks, fs, bo, name + " signature")
            p = Parser(self.toks[bo:bc + 1], name)
            body = p.block()
            if p.i != len(p.t):
                p.err("trailing tokens after the body")
            f = Fn(name, selfk, params, ret, body)
            self.busy.append(name)
            saved = (self.cur, self.pre, self.qn, self.cdepth, self.closers)
            self.cur, self.pre, self.qn, self.cdepth, self.closers = f, [], 0, 0, []
            d = self.emit_fn(f)
            self.cur, self.pre, self.qn, self.cdepth, self.closers = saved
            self.out.append((name, d))
            self.busy.pop()
            self.fns[name] = f
        if self.cur is not None and f.wmode and not self.cur.wmode:
            raise TErr("%s: calls %s, which needs the non-scalar world (the caller is emitted in trace style)"
                       % (self.cur.name, name))
        if is_method and f.selfk is None:
            raise TErr("%s: called as a method but has no self" % name)
        if not is_method and f.selfk is not None:
            raise TErr("%s: called as a free function but takes self" % name)
        return f

    # -- places
    def place(self, e, where):
        """self.a.b / self.a[0] -> 'a.b' / 'a[0]'  (None if e is not rooted at self)"""
        if e[0] == "self":
            return ""
        if e[0] == "field":
            b = self.place(e[1], where)
            if b is None:
                return None
            return (b + "." if b else "") + e[2]
        if e[0] == "index":
            b = self.place(e[1], where)
            if b is None:
                return None
            if e[2][0] != "num":
                raise TErr("%s: unsupported: non-literal index into self.%s" % (where, b))
            return "%s[%d]" % (b, e[2][1])
        return None

    # -- expressions: returns (gallina, cond|None, type); type None = untyped integer literal
    def unify(self, ta, tb, where, what):
        if ta is None:
            return tb
        if tb is None or ta == tb:
            return ta
        raise TErr("%s: type mismatch in %s: %s vs %s" % (where, what, ta, tb))

    def expr(self, e, env, w, want=None):
        k = e[0]
        if k == "num":
            return str(e[1]), None, None
        if k == "bool":
            return ("true" if e[1] else "false"), None, "bool"
        if k == "char":
            return str(e[1]), None, "char"
        if k == "tuple":
            if len(e[1]) != 2:
                raise TErr("%s: unsupported: tuple of %d components" % (w, len(e[1])))
            ga, ca, ta = self.expr(e[1][0], env, w, "usize")
            gb, cb, tb = self.expr(e[1][1], env, w, "usize")
            if ta not in ("usize", None) or tb not in ("usize", None):
                raise TErr("%s: unsupported: tuple of %s, %s" % (w, ta, tb))
            return "(%s, %s)" % (ga, gb), conj(ca, cb), "pair"
        if k == "path":
            return self.path(e, env, w, want)
        if k == "islet":
            g, c, ty = self.expr(e[2], env, w)
            segs = e[1]
            if ty not in ENUMS or len(segs) != 2 or segs[0] != ty or segs[1] not in ENUMS[ty][1]:
                raise TErr("%s: unsupported `if let %s = <%s>`" % (w, "::".join(segs), ty))
            return "(match %s with %s => true | _ => false end)" % (g, ENUMS[ty][1][segs[1]]), c, "bool"
        if k == "paren":
            return self.expr(e[1], env, w, want)
        if k == "var":
            if e[1] not in env:
                raise TErr("%s: unknown variable %s" % (w, e[1]))
            return "v_" + e[1], None, env[e[1]]
        if k == "index" and e[2][0] != "num" and self.place(e[1], w) == "charsets":
            gi, ci, ti = self.expr(e[2], env, w, "usize")
            if ti != "usize":
                raise TErr("%s: index into self.charsets of type %s" % (w, ti))
            return ("(if (%s =? 0) then (z_cs0 s) else (z_cs1 s))" % gi, conj(ci, "(%s <? 2)" % gi), "Charset")
        if k in ("field", "index"):
            pl = self.place(e, w)
            if pl in WREAD and self.cur.wmode:
                return "(%s O w)" % WREAD[pl][0], None, WREAD[pl][1]
            if pl is None:
                raise TErr("%s: unsupported: field access on a non-self value" % w)
            if pl not in FIELD:
                raise TErr("%s: unsupported: read of self.%s (not a scalar field of the tie)" % (w, pl))
            z, ty = FIELD[pl]
            return "(%s s)" % z, None, ty
        if k == "self":
            raise TErr("%s: unsupported: bare `self` as a value" % w)
        if k == "neg":
            g, c, ty = self.expr(e[1], env, w, "isize")
            if ty is None:
                if want not in (None, "isize"):
                    raise TErr("%s: negative literal at type %s" % (w, want))
                return "(- %s)" % g, c, "isize"
            if ty != "isize":
                raise TErr("%s: unsupported: unary minus at type %s" % (w, ty))
            return "(- %s)" % g, c, "isize"
        if k == "not":
            g, c, ty = self.expr(e[1], env, w)
            if ty != "bool":
                raise TErr("%s: unsupported: `!` at type %s" % (w, ty))
            return "(negb %s)" % g, c, "bool"
        if k == "ref":
            raise TErr("%s: unsupported: `&` expression" % w)
        if k == "cast":
            g, c, ty = self.expr(e[1], env, w)
            if ty not in INT + (None,):
                raise TErr("%s: unsupported: cast from %s" % (w, ty))
            if e[2] == "isize":
                return g, c, "isize"
            if e[2] == "usize":
                if ty in UNSIGNED:
                    return g, c, "usize"
                return g, conj(c, "(0 <=? %s)" % g), "usize"
            raise TErr("%s: unsupported: cast to %s" % (w, e[2]))
        if k == "bin":
            return self.binop(e, env, w, want)
        if k == "range":
            ga, ca, ta = self.expr(e[1], env, w, "usize")
            gb, cb, tb = self.expr(e[2], env, w, "usize")
            if self.unify(ta, tb, w, "range") not in ("usize", None):
                raise TErr("%s: unsupported: range at type %s" % (w, ta))
            return "(%s, %s)" % (ga, gb), conj(ca, cb), "range"
        if k == "if":
            if e[3] is None:
                raise TErr("%s: `if` without `else` used as a value" % w)
            gc, cc, tc = self.expr(e[1], env, w)
            if tc != "bool":
                raise TErr("%s: `if` condition of type %s" % (w, tc))
            g1, c1, t1 = self.value_block(e[2], env, w, want)
            g2, c2, t2 = self.value_block(e[3], env, w, want)
            ty = self.unify(t1, t2, w, "if branches")
            c = None
            if c1 is not None or c2 is not None:
                c = "(if %s then %s else %s)" % (gc, c1 or "true", c2 or "true")
            return "(if %s then %s else %s)" % (gc, g1, g2), conj(cc, c), ty
        if k == "match":
            gs, cs, ts = self.expr(e[1], env, w)
            if ts != "bool":
                raise TErr("%s: unsupported: `match` on a value of type %s" % (w, ts))
            arms = {}
            for pat, body in e[2]:
                if pat[0] == "ppath":
                    raise TErr("%s: unsupported pattern %s in a bool match" % (w, "::".join(pat[1])))
                for p in ((True, False) if pat[0] == "pwild" else (pat[1],)):
                    arms.setdefault(p, body)
            if set(arms) != {True, False}:
                raise TErr("%s: non-exhaustive bool match" % w)
            g1, c1, t1 = self.value_block(arms[True], env, w, want)
            g2, c2, t2 = self.value_block(arms[False], env, w, want)
            ty = self.unify(t1, t2, w, "match arms")
            c = None
            if c1 is not None or c2 is not None:
                c = "(if %s then %s else %s)" % (gs, c1 or "true", c2 or "true")
            return "(if %s then %s else %s)" % (gs, g1, g2), conj(cs, c), ty
        if k == "mcall":
            recv, name, args = e[1], e[2], e[3]
            if recv[0] == "self":
                f = self.need(name, True)
                if f.ret is None:
                    raise TErr("%s: unit method self.%s used as a value" % (w, name))
                if f.selfk == "mut" or f.wmode:
                    raise TErr("%s: unsupported: value of a `&mut self` / W-mode method self.%s" % (w, name))
                ga, ca = self.call_args(f, args, env, w)
                app = "(g_%s s%s)" % (name, "".join(" " + a for a in ga))
                return "(fst %s)" % app, conj(ca, "snd %s" % app), f.ret
            pl = self.place(recv, w) if recv[0] in ("field", "index") and not (
                recv[0] == "index" and recv[2][0] != "num") else None
            if pl is not None and (pl, name) in QUERIES:
                field, kinds, rty = QUERIES[(pl, name)]
                if len(kinds) != len(args):
                    raise TErr("%s: self.%s.%s with %d arguments" % (w, pl, name, len(args)))
                gs, cs = ["w"], []
                for a in args:
                    g, c, ty = self.expr(a, env, w, "usize")
                    if ty not in ("usize", None):
                        raise TErr("%s: self.%s.%s: argument of type %s" % (w, pl, name, ty))
                    gs.append(self.atom(g))
                    cs.append(c)
                return self.query(field, gs, w), conj(*cs), rty
            if name == "char" and not args and recv[0] == "index" and self.place(recv[1], w) == "buffer":
                g, c, ty = self.expr(recv[2], env, w)
                if ty != "pair":
                    raise TErr("%s: self.buffer[..] indexed by a value of type %s" % (w, ty))
                return self.query("q_buf_char", ["w", "(fst %s)" % g, "(snd %s)" % g], w), c, "char"
            if name == "cmp" and len(args) == 1 and args[0][0] == "ref":
                ga, ca, ta = self.expr(recv, env, w, "usize")
                gb, cb, tb = self.expr(args[0][1], env, w, ta or "usize")
                if self.unify(ta, tb, w, ".cmp") not in ("usize", "isize"):
                    raise TErr("%s: unsupported: .cmp at type %s" % (w, ta))
                return "(%s ?= %s)" % (ga, gb), conj(ca, cb), "Ordering"
            if name == "resize" and len(args) == 3 and recv == ("field", ("self",), "buffer"):
                if not self.cur.wmode or self.cdepth:
                    raise TErr("%s: unsupported here: self.buffer.resize(..)" % w)
                gs, cs = self.extern_args("self.buffer.resize", ["i", "i", "p"], args, env, w)
                self.qn += 1
                q = "q%d" % self.qn
                self.pre.append(("'(w, %s)" % q, "op_buf_resize O w %s" % " ".join(gs)))
                return q, cs, "pair"
            if name == "unwrap_or" and len(args) == 1:
                ga, ca, ta = self.expr(recv, env, w)
                if ta != "opt_usize":
                    raise TErr("%s: unsupported: .unwrap_or at type %s" % (w, ta))
                gb, cb, tb = self.expr(args[0], env, w, "usize")      # evaluated eagerly, as in Rust
                if tb not in ("usize", None):
                    raise TErr("%s: .unwrap_or default of type %s" % (w, tb))
                return "(match %s with Some x => x | None => %s end)" % (ga, gb), conj(ca, cb), "usize"
            if name == "translate" and len(args) == 1:
                ga, ca, ta = self.expr(recv, env, w)
                gb, cb, tb = self.expr(args[0], env, w, "char")
                if ta != "Charset" or tb != "char":
                    raise TErr("%s: unsupported: .translate on %s with %s" % (w, ta, tb))
                return self.query("q_translate", [self.atom(ga), self.atom(gb)], w), conj(ca, cb), "char"
            if name == "into" and not args and want == "cell":
                g, c, ty = self.expr(recv, env, w, "char")
                if ty != "char":
                    raise TErr("%s: unsupported: .into() from %s to a cell" % (w, ty))
                return "(ZCellChar %s)" % self.atom(g), c, "cell"
            if name in ("min", "max"):
                if len(args) != 1:
                    raise TErr("%s: .%s with %d arguments" % (w, name, len(args)))
                ga, ca, ta = self.expr(recv, env, w, want)
                gb, cb, tb = self.expr(args[0], env, w, ta or want)
                ty = self.unify(ta, tb, w, "." + name)
                if ty not in INT + (None,):
                    raise TErr("%s: unsupported: .%s at type %s" % (w, name, ty))
                return "(Z.%s %s %s)" % (name, ga, gb), conj(ca, cb), ty
            if name == "clone" and not args:
                g, c, ty = self.expr(recv, env, w)
                if ty != "range":
                    raise TErr("%s: unsupported: .clone() at type %s" % (w, ty))
                return g, c, ty
            raise TErr("%s: unsupported method call .%s(..) as a value" % (w, name))
        if k == "call":
            f = self.need(e[1], False)
            if f.ret is None:
                raise TErr("%s: unit function %s used as a value" % (w, e[1]))
            ga, ca = self.call_args(f, e[2], env, w)
            app = "(g_%s%s)" % (e[1], "".join(" " + a for a in ga))
            return "(fst %s)" % app, conj(ca, "snd %s" % app), f.ret
        raise TErr("%s: unsupported expression node %s" % (w, k))

    def call_args(self, f, args, env, w):
        if len(args) != len(f.params):
            raise TErr("%s: call of %s with %d arguments (expected %d)" % (w, f.name, len(args), len(f.params)))
        gs, cs = [], []
        for a, (pn, pt) in zip(args, f.params):
            g, c, ty = self.expr(a, env, w, pt)
            if ty is not None and ty != pt:
                raise TErr("%s: argument %s of %s: type %s, expected %s" % (w, pn, f.name, ty, pt))
            if ty is None and pt not in INT:
                raise TErr("%s: argument %s of %s: integer literal at type %s" % (w, pn, f.name, pt))
            gs.append(g if g.startswith("(") or " " not in g else "(%s)" % g)
            cs.append(c)
        return gs, conj(*cs)

    def binop(self, e, env, w, want):
        op = e[1]
        if op in ("&&", "||"):
            ga, ca, ta = self.expr(e[2], env, w)
            self.cdepth += 1
            gb, cb, tb = self.expr(e[3], env, w)
            self.cdepth -= 1
            if ta != "bool" or tb != "bool":
                raise TErr("%s: `%s` on non-bool operands" % (w, op))
            if cb is not None:     # short circuit: the right operand is charged only when evaluated
                cb = "(%s %s)" % ("negb %s ||" % ga if op == "&&" else "%s ||" % ga, paren_c(cb))
            return "(%s %s %s)" % (ga, op, gb), conj(ca, cb), "bool"
        ga, ca, ta = self.expr(e[2], env, w, want if op in "+-*/%" else None)
        gb, cb, tb = self.expr(e[3], env, w, ta)
        if ta is None and tb is not None:
            ga, ca, ta = self.expr(e[2], env, w, tb)
        ty = self.unify(ta, tb, w, "`%s`" % op)
        c = conj(ca, cb)
        if op in ("==", "!=", "<", "<=", ">", ">="):
            if ty == "bool" and op in ("==", "!="):
                g = "(Bool.eqb %s %s)" % (ga, gb)
                return ("(negb %s)" % g if op == "!=" else g), c, "bool"
            if ty not in INT + (None,):
                raise TErr("%s: unsupported: comparison `%s` at type %s" % (w, op, ty))
            if op in (">", ">="):          # a > b is emitted as b < a
                ga, gb, op = gb, ga, {">": "<", ">=": "<="}[op]
            g = {"==": "(%s =? %s)", "!=": "(negb (%s =? %s))", "<": "(%s <? %s)", "<=": "(%s <=? %s)"}[op] % (ga, gb)
            return g, c, "bool"
        if ty is None:
            ty = want
        if ty not in INT:
            raise TErr("%s: cannot determine the integer type of `%s` (needed for the underflow rule)" % (w, op))
        if ty == "u16" and op != "-":
            raise TErr("%s: unsupported: u16 arithmetic `%s` (overflow not modelled)" % (w, op))
        if op == "+" or op == "*":
            return "(%s %s %s)" % (ga, op, gb), c, ty
        if op == "-":
            if ty in UNSIGNED:
                c = conj(c, "(%s <=? %s)" % (gb, ga))
            return "(%s - %s)" % (ga, gb), c, ty
        if op in ("/", "%"):
            if ty not in UNSIGNED:
                raise TErr("%s: unsupported: signed `%s`" % (w, op))
            return "(%s %s %s)" % (ga, "/" if op == "/" else "mod", gb), conj(c, "(negb (%s =? 0))" % gb), ty
        raise TErr("%s: unsupported operator %s" % (w, op))

    def value_block(self, blk, env, w, want):
        stmts, tail = blk
        if stmts or tail is None:
            raise TErr("%s: unsupported: statements inside a value-producing block" % w)
        self.cdepth += 1
        r = self.expr(tail, env, w, want)
        self.cdepth -= 1
        return r

    def query(self, field, gs, w):
        """hoist a call into the non-scalar world that returns a value"""
        if not self.cur.wmode:
            raise TErr("%s: unsupported in a trace-style function: query %s" % (w, field))
        if self.cdepth:
            raise TErr("%s: unsupported: query %s inside a conditionally evaluated expression" % (w, field))
        self.qn += 1
        q = "q%d" % self.qn
        self.pre.append((q, "%s O %s" % (field, " ".join(gs))))
        return q

    def atom(self, g):
        return g if g.startswith("(") or " " not in g else "(%s)" % g

    def path(self, e, env, w, want):
        segs, args = e[1], e[2]
        if segs == ["Cell", "new"] and args is not None and len(args) == 2:
            if args[1] != ("field", ("self",), "pen"):
                raise TErr("%s: Cell::new: expected `self.pen` as the pen" % w)
            g, c, ty = self.expr(args[0], env, w, "char")
            if ty != "char":
                raise TErr("%s: Cell::new on a value of type %s" % (w, ty))
            return "(ZCellNew %s)" % self.atom(g), c, "cell"
        if segs == ["Cell", "blank"] and args == [("field", ("self",), "pen")]:
            return "ZCellBlank", None, "cell"
        if len(segs) == 2 and segs[0] == "EraseMode" and segs[1] in ERASE:
            n = ERASE[segs[1]]
            if (len(args) if args is not None else 0) != n:
                raise TErr("%s: EraseMode::%s with the wrong number of arguments" % (w, segs[1]))
            if n == 0:
                return "Z" + segs[1], None, "erase"
            g, c, ty = self.expr(args[0], env, w, "usize")
            if ty not in ("usize", None):
                raise TErr("%s: EraseMode::%s on a value of type %s" % (w, segs[1], ty))
            return "(Z%s %s)" % (segs[1], self.atom(g)), c, "erase"
        if len(segs) == 2 and args is None and tuple(segs) in CONSTS:
            g, ty = CONSTS[tuple(segs)]
            return g, None, ty
        if len(segs) == 2 and args is None and segs[0] in ENUMS and segs[1] in ENUMS[segs[0]][1]:
            return ENUMS[segs[0]][1][segs[1]], None, segs[0]
        raise TErr("%s: unsupported path expression %s%s" % (w, "::".join(segs), "(..)" if args is not None else ""))

    # -- statements.  Emits `let .. in` lines over the shadowed names `s`, `ok`, `v_x`.
    def assigned(self, blk, acc):
        """locals assigned (not declared) inside a block, in order of first assignment"""
        stmts, tail = blk
        declared = set()
        for st in list(stmts) + ([("expr", tail)] if tail is not None else []):
            inner = []
            if st[0] == "let":
                declared.add(st[1])
            elif st[0] == "letpat":
                declared.update(st[2])
            elif st[0] == "assign" and st[1][0] == "var":
                inner.append(st[1][1])
            elif st[0] == "for":
                self.assigned(st[3], inner)
                inner = [x for x in inner if x != st[1]]
            elif st[0] == "expr" and st[1][0] == "if":
                self.assigned(st[1][2], inner)
                if st[1][3] is not None:
                    self.assigned(st[1][3], inner)
            elif st[0] == "expr" and st[1][0] == "match":
                for _, b in st[1][2]:
                    self.assigned(b, inner)
            for x in inner:
                if x not in declared and x not in acc:
                    acc.append(x)
        return acc

    # -- emission helpers.  Lines are `let .. in` / `zb (..) (fun .. =>` over the shadowed names s, w, ok, v_x.
    def charge(self, c, lines, ind):
        if c is not None:
            lines.append("%slet ok := ok && %s in" % (ind, c))

    def bind(self, lines, ind, term, pat):
        lines.append("%szb (%s) (fun %s =>" % (ind, term, pat))
        self.closers[-1] += 1

    def flush_pre(self, lines, ind):
        for q, term in self.pre:
            self.bind(lines, ind, term, q)
        self.pre = []

    def tup(self, f, muts):
        return ", ".join((["s", "w", "ok"] if f.wmode else ["s", "ok"]) + ["v_" + m for m in muts])

    def join_open(self, f, tup):
        return "zb (" if f.wmode else "let '(%s) := " % tup

    def join_close(self, f, tup):
        if f.wmode:
            self.closers[-1] += 1
            return ") (fun '(%s) =>" % tup
        return " in"

    def block_lines(self, blk, env, f, ind, tup, nested=True):
        """a unit-context block as lines ending with the state tuple; env is copied (block scoping),
        assignments to outer locals persist because the caller re-binds them from the tuple"""
        outer, env = env, dict(env)
        stmts, tail = blk
        lines = []
        self.closers.append(0)
        reassigned = self.assigned(blk, []) if nested else []
        for st in list(stmts) + ([("expr", tail)] if tail is not None else []):
            if nested and st[0] == "let" and st[1] in outer and st[1] in reassigned:
                raise TErr("%s: unsupported: `let %s` shadows an outer variable that the same block assigns"
                           % (f.name, st[1]))
            self.stmt(st, env, f, lines, ind)
        lines.append("%s%s%s" % (ind, ("Some (%s)" if f.wmode else "(%s)") % tup, ")" * self.closers.pop()))
        return lines

    def extern_args(self, what, kinds, args, env, w):
        if len(kinds) != len(args):
            raise TErr("%s: %s with %d arguments" % (w, what, len(args)))
        gs, cs = [], []
        for a, kind in zip(args, kinds):
            if kind == "pen":
                if a != ("ref", ("field", ("self",), "pen")):
                    raise TErr("%s: %s: expected `&self.pen`" % (w, what))
                continue
            want = {"i": "usize", "r": None, "p": None, "cell": "cell", "erase": "erase"}[kind]
            g, c, ty = self.expr(a, env, w, want)
            if kind == "i":
                if ty not in ("usize", None):
                    raise TErr("%s: %s: argument of type %s" % (w, what, ty))
                gs.append(self.atom(g))
            elif kind in ("r", "p"):
                if ty != {"r": "range", "p": "pair"}[kind]:
                    raise TErr("%s: %s: expected a %s" % (w, what, {"r": "range", "p": "position tuple"}[kind]))
                gs += ["(fst %s)" % g, "(snd %s)" % g]
            else:
                if ty != kind:
                    raise TErr("%s: %s: expected a value of type %s, found %s" % (w, what, kind, ty))
                gs.append(self.atom(g))
            cs.append(c)
        return gs, conj(*cs)

    def stmt(self, st, env, f, lines, ind):
        w = f.name
        if st[0] == "letpat":
            segs, names, e = st[1], st[2], st[3]
            g, c, ty = self.expr(e, env, w)
            if len(segs) != 2 or segs[0] != ty or tuple(segs) not in LETPATS or len(names) != len(LETPATS[tuple(segs)][1]):
                raise TErr("%s: unsupported pattern `let %s(..)` on a value of type %s" % (w, "::".join(segs), ty))
            ctor, tys = LETPATS[tuple(segs)]
            self.flush_pre(lines, ind)
            self.charge(c, lines, ind)
            lines.append("%slet '(%s %s) := %s in" % (ind, ctor, " ".join("v_" + n for n in names), g))
            if ty == "XtwinopsOp":           # the components are N in the model: the functions work on Z
                for n in names:
                    lines.append("%slet v_%s := Z.of_N v_%s in" % (ind, n, n))
            for n, t in zip(names, tys):
                env[n] = t
            return
        if st[0] == "let":
            g, c, ty = self.expr(st[2], env, w, st[3])
            if ty is None and st[3] in INT:
                ty = st[3]
            if st[3] is not None and ty != st[3]:
                raise TErr("%s: `let %s: %s` initialised with a value of type %s" % (w, st[1], st[3], ty))
            if ty is None:
                raise TErr("%s: cannot determine the type of `let %s`" % (w, st[1]))
            self.flush_pre(lines, ind)
            self.charge(c, lines, ind)
            lines.append("%slet v_%s := %s in" % (ind, st[1], g))
            env[st[1]] = ty
            return
        if st[0] == "assign":
            lhs, op, rhs = st[1], st[2], st[3]
            if op != "=":
                rhs = ("bin", op[0], lhs, rhs)
            if lhs[0] == "var":
                if lhs[1] not in env:
                    raise TErr("%s: assignment to unknown variable %s" % (w, lhs[1]))
                g, c, ty = self.expr(rhs, env, w, env[lhs[1]])
                if ty is not None and ty != env[lhs[1]]:
                    raise TErr("%s: assignment to %s: type %s, expected %s" % (w, lhs[1], ty, env[lhs[1]]))
                self.flush_pre(lines, ind)
                self.charge(c, lines, ind)
                lines.append("%slet v_%s := %s in" % (ind, lhs[1], g))
                return
            if lhs[0] == "tuple":           # (place, place) = <pair>
                pls = [self.place(x, w) for x in lhs[1]]
                if op != "=" or len(pls) != 2 or any(pl not in FIELD or FIELD[pl][1] != "usize" for pl in pls):
                    raise TErr("%s: unsupported tuple assignment" % w)
                g, c, ty = self.expr(rhs, env, w)
                if ty != "pair":
                    raise TErr("%s: tuple assignment from a value of type %s" % (w, ty))
                self.flush_pre(lines, ind)
                self.charge(c, lines, ind)
                lines.append("%slet v_tmp_pair := %s in" % (ind, g))
                lines.append("%slet s := set_%s (fst v_tmp_pair) s in" % (ind, FIELD[pls[0]][0]))
                lines.append("%slet s := set_%s (snd v_tmp_pair) s in" % (ind, FIELD[pls[1]][0]))
                return
            pl = self.place(lhs, w)
            if pl is None:
                raise TErr("%s: unsupported assignment target" % w)
            if f.wmode and op == "=" and pl not in FIELD:
                ev = None
                if pl in WWRITE:
                    g, c, ty = self.expr(rhs, env, w, WWRITE[pl][1])
                    if ty not in (WWRITE[pl][1], None) or (ty is None and WWRITE[pl][1] not in INT):
                        raise TErr("%s: write to self.%s: type %s" % (w, pl, ty))
                    ev = "(%s %s)" % (WWRITE[pl][0], self.atom(g))
                elif rhs[0] == "field" and (pl, self.place(rhs, w)) in WMOVE:
                    ev, c = WMOVE[(pl, self.place(rhs, w))], None
                elif pl == "buffer" and rhs[0] == "path" and rhs[1] == ["Buffer", "new"] and rhs[2] is not None \
                        and len(rhs[2]) == 4 and rhs[2][2] == ("call", "Some", [("num", 0)]) \
                        and rhs[2][3] == ("call", "Some", [("ref", ("field", ("self",), "pen"))]):
                    gs, c = self.extern_args("Buffer::new", ["i", "i"], rhs[2][:2], env, w)
                    ev = "(EvBufNewAlt %s)" % " ".join(gs)
                if ev is not None:
                    self.flush_pre(lines, ind)
                    self.charge(c, lines, ind)
                    self.bind(lines, ind, "op_ev O w %s" % ev, "w")
                    return
            if pl not in FIELD:
                raise TErr("%s: unsupported: write to self.%s (not a scalar field of the tie)" % (w, pl))
            if f.selfk != "mut":
                raise TErr("%s: write to self.%s without `&mut self`" % (w, pl))
            z, fty = FIELD[pl]
            g, c, ty = self.expr(rhs, env, w, fty)
            if ty is not None and ty != fty:
                raise TErr("%s: write to self.%s: type %s, expected %s" % (w, pl, ty, fty))
            if ty is None and fty not in INT:
                raise TErr("%s: write to self.%s: integer literal at type %s" % (w, pl, fty))
            self.flush_pre(lines, ind)
            self.charge(c, lines, ind)
            lines.append("%slet s := set_%s %s s in" % (ind, z, g))
            return
        if st[0] == "for":
            if not f.wmode:
                raise TErr("%s: unsupported in a trace-style function: `for` loop" % w)
            var, it, body = st[1], st[2], st[3]
            g, c, ty = self.expr(it, env, w)
            if ty == "range":
                it_g, vty = "(zrange (fst %s) (snd %s))" % (g, g), "usize"
            elif ty is not None and ty.startswith("Vec<"):
                it_g, vty = g, ty[4:-1]
            else:
                raise TErr("%s: unsupported: `for` over a value of type %s" % (w, ty))
            self.flush_pre(lines, ind)
            self.charge(c, lines, ind)
            if var in env:
                raise TErr("%s: unsupported: loop variable %s shadows an outer variable" % (w, var))
            muts = [m for m in self.assigned(body, []) if m in env]
            tup = self.tup(f, muts)
            env2 = dict(env)
            env2[var] = vty
            lines.append("%szb (zfor %s (fun v_%s '(%s) =>" % (ind, it_g, var, tup))
            lines += self.block_lines(body, env2, f, ind + "    ", tup)
            lines[-1] += ") (%s)) (fun '(%s) =>" % (tup, tup)
            self.closers[-1] += 1
            return
        e = st[1]
        if e[0] == "if":
            gc, cc, tc = self.expr(e[1], env, w)
            if tc != "bool":
                raise TErr("%s: `if` condition of type %s" % (w, tc))
            self.flush_pre(lines, ind)
            self.charge(cc, lines, ind)
            muts = self.assigned(e[2], [])
            if e[3] is not None:
                self.assigned(e[3], muts)
            tup = self.tup(f, [m for m in muts if m in env])
            lines.append("%s%sif %s then" % (ind, self.join_open(f, tup), gc))
            lines += self.block_lines(e[2], env, f, ind + "    ", tup)
            lines.append("%s  else" % ind)
            lines += self.block_lines(e[3] if e[3] is not None else ([], None), env, f, ind + "    ", tup)
            lines[-1] += self.join_close(f, tup)
            return
        if e[0] == "match":
            gs, cs, ts = self.expr(e[1], env, w)
            self.flush_pre(lines, ind)
            self.charge(cs, lines, ind)
            muts = []
            for _, b in e[2]:
                self.assigned(b, muts)
            tup = self.tup(f, [m for m in muts if m in env])
            lines.append("%s%smatch %s with" % (ind, self.join_open(f, tup), gs))
            for pat, b in e[2]:
                if pat[0] == "pwild":
                    gp = "_"
                elif pat[0] == "pbool":
                    if ts != "bool":
                        raise TErr("%s: bool pattern in a match on %s" % (w, ts))
                    gp = "true" if pat[1] else "false"
                else:
                    segs = pat[1]
                    if ts == "Ordering" and segs[:-1] in (["std", "cmp", "Ordering"], ["Ordering"]):
                        segs = ["Ordering", segs[-1]]
                    if ts not in ENUMS or len(segs) > 2 or (len(segs) == 2 and segs[0] != ts) \
                            or segs[-1] not in ENUMS[ts][1]:
                        raise TErr("%s: unsupported pattern %s in a match on %s" % (w, "::".join(segs), ts))
                    gp = ENUMS[ts][1][segs[-1]]
                lines.append("%s  | %s =>" % (ind, gp))
                lines += self.block_lines(b, env, f, ind + "      ", tup)
            lines.append("%s  end%s" % (ind, self.join_close(f, tup)))
            return
        if e[0] == "mcall" and e[1][0] == "self" and e[2] in OPAQUE:
            ctor, ptys = OPAQUE[e[2]]
            if not f.wmode:
                raise TErr("%s: unsupported in a trace-style function: call of self.%s" % (w, e[2]))
            if ptys or e[3]:
                raise TErr("%s: unsupported: call of self.%s with arguments" % (w, e[2]))
            find_fn(self.toks, e[2], self.lo, self.hi)          # must still exist
            self.flush_pre(lines, ind)
            self.bind(lines, ind, "op_full O %s s w" % ctor, "'(s, w)")
            return
        if e[0] == "mcall" and e[1][0] == "self":
            g = self.need(e[2], True)
            if g.ret is not None and not g.wmode:
                raise TErr("%s: unsupported: value of self.%s discarded" % (w, e[2]))
            if g.selfk == "mut" and f.selfk != "mut":
                raise TErr("%s: `&mut self` method called without `&mut self`" % w)
            ga, ca = self.call_args(g, e[3], env, w)
            self.flush_pre(lines, ind)
            self.charge(ca, lines, ind)
            app = "%s%s%s" % (g.pfx + e[2], " O s w" if g.wmode else " s", "".join(" " + a for a in ga))
            if not f.wmode:
                lines.append("%slet '(s, okc) := %s in" % (ind, app))
            elif g.wmode:
                self.bind(lines, ind, app, "'(s, w, okc, _)" if g.ret is not None else "'(s, w, okc)")
            else:
                self.bind(lines, ind, "zlift O (%s) w" % app, "'(s, w, okc)")
            lines.append("%slet ok := ok && okc in" % ind)
            return
        if e[0] == "mcall":
            pl = self.place(e[1], w)
            if pl is not None and (pl, e[2]) in EXTERN:
                ctor, kinds = EXTERN[(pl, e[2])]
                if f.selfk != "mut":
                    raise TErr("%s: self.%s.%s without `&mut self`" % (w, pl, e[2]))
                gs, c = self.extern_args("self.%s.%s" % (pl, e[2]), kinds, e[3], env, w)
                self.flush_pre(lines, ind)
                self.charge(c, lines, ind)
                ev = "(%s)" % " ".join([ctor] + gs)
                if f.wmode:
                    self.bind(lines, ind, "op_ev O w %s" % ev, "w")
                else:
                    lines.append("%slet s := z_emit %s s in" % (ind, ev))
                return
            raise TErr("%s: unsupported call %s.%s(..)" % (w, "self." + pl if pl is not None else "<expr>", e[2]))
        if e[0] == "path" and e[1] == ["mem", "swap"] and e[2] is not None and len(e[2]) == 2 and f.wmode \
                and all(a[0] == "refmut" for a in e[2]):
            pls = tuple(self.place(a[1], w) for a in e[2])
            if pls not in WSWAP:
                raise TErr("%s: unsupported: mem::swap of %s" % (w, pls))
            self.bind(lines, ind, "op_ev O w %s" % WSWAP[pls], "w")
            return
        if e[0] == "call":
            raise TErr("%s: unsupported: free function call %s(..) as a statement" % (w, e[1]))
        raise TErr("%s: unsupported expression statement (%s)" % (w, e[0]))

    def emit_fn(self, f):
        env = {}
        for n, ty in f.params:
            env[n] = ty
        ps = "".join(" (v_%s : %s)" % (n, COQ_TY[ty]) for n, ty in f.params)
        stmts, tail = f.body
        if f.wmode:
            if f.selfk != "mut":
                raise TErr("%s: unsupported: W-mode function that is not a `&mut self` method" % f.name)
            if f.ret is None:
                lines = ["  let ok := true in"] + self.block_lines(f.body, env, f, "  ", "s, w, ok", nested=False)
                rty = "zt * W * bool"
            else:
                if tail is None:
                    raise TErr("%s: no tail expression" % f.name)
                lines = ["  let ok := true in"]
                self.closers.append(0)
                for st in stmts:
                    self.stmt(st, env, f, lines, "  ")
                g, c, ty = self.expr(tail, env, f.name, f.ret)
                if ty != f.ret:
                    raise TErr("%s: returns %s, declared %s" % (f.name, ty, f.ret))
                self.flush_pre(lines, "  ")
                self.charge(c, lines, "  ")
                lines.append("  Some (s, w, ok, %s)%s" % (g, ")" * self.closers.pop()))
                rty = "zt * W * bool * %s" % COQ_TY[f.ret]
            return "Definition w_%s {W : Type} (O : zops W) (s : zt) (w : W)%s : option (%s) :=\n%s.\n" % (
                f.name, ps, rty, "\n".join(lines))
        sarg = " (s : zt)" if f.selfk else ""
        lines = ["  let ok := true in"]
        if f.ret is None:
            if f.selfk != "mut":
                raise TErr("%s: unsupported: unit function without `&mut self`" % f.name)
            lines += self.block_lines(f.body, env, f, "  ", "s, ok", nested=False)
            lines[-1] += "."
            rty = "zt * bool"
        else:
            if f.selfk == "mut":
                raise TErr("%s: unsupported: `&mut self` method returning a value" % f.name)
            if tail is None:
                raise TErr("%s: no tail expression" % f.name)
            self.closers.append(0)
            for st in stmts:
                self.stmt(st, env, f, lines, "  ")
            g, c, ty = self.expr(tail, env, f.name, f.ret)
            if ty is not None and ty != f.ret:
                raise TErr("%s: returns %s, declared %s" % (f.name, ty, f.ret))
            self.charge(c, lines, "  ")
            lines.append("  (%s, ok)." % g)
            self.closers.pop()
            rty = "%s * bool" % COQ_TY[f.ret]
        return "Definition g_%s%s%s : %s :=\n%s\n" % (f.name, sarg, ps, rty, "\n".join(lines))


# ------------------------------------------------------------------------------ struct check + execute map

def struct_fields(toks, name):
    for i in range(len(toks) - 2):
        if toks[i] == ("id", "struct") and toks[i + 1] == ("id", name) and toks[i + 2] == ("punct", "{"):
            c = match_close(toks, i + 2)
            out, cur, d = {}, [], 0
            for k, t in toks[i + 3:c] + [("punct", ",")]:
                if k == "punct" and t in "([{<":
                    d += 1
                elif k == "punct" and t in ")]}>":
                    d -= 1
                if d == 0 and (k, t) == ("punct", ","):
                    cur = [x for x in cur if x[1] not in ("pub", "crate") and x != ("punct", "(") and x != ("punct", ")")]
                    if cur:
                        if cur[1] != ("punct", ":"):
                            raise TErr("struct %s: cannot parse field %s" % (name, text(cur)))
                        out[cur[0][1]] = text(cur[2:])
                    cur = []
                else:
                    cur.append((k, t))
            return out
    raise TErr("struct %s not found" % name)


def check_structs(term, cur):
    tf, cf = struct_fields(term, "Terminal"), struct_fields(cur, "Cursor")
    want = {"cols": "usize", "rows": "usize", "pending_wrap": "bool", "top_margin": "usize", "bottom_margin": "usize",
            "origin_mode": "bool", "new_line_mode": "bool", "active_charset": "usize", "cursor": "Cursor",
            "insert_mode": "bool", "auto_wrap_mode": "bool", "cursor_keys_mode": "CursorKeysMode",
            "saved_ctx": "SavedCtx", "alternate_saved_ctx": "SavedCtx", "active_buffer_type": "BufferType",
            "xtwinops": "bool", "buffer": "Buffer", "other_buffer": "Buffer", "pen": "Pen",
            "charsets": "[ Charset ; 2 ]"}
    for k, v in want.items():
        if tf.get(k) != v:
            raise TErr("struct Terminal: field %s has type %s (expected %s)" % (k, tf.get(k), v))
    sf = struct_fields(term, "SavedCtx")
    for k, v in (("cursor_col", "usize"), ("cursor_row", "usize"), ("pen", "Pen"), ("origin_mode", "bool"),
                 ("auto_wrap_mode", "bool")):
        if sf.get(k) != v:
            raise TErr("struct SavedCtx: field %s has type %s (expected %s)" % (k, sf.get(k), v))
    for k, v in (("col", "usize"), ("row", "usize"), ("visible", "bool")):
        if cf.get(k) != v:
            raise TErr("struct Cursor: field %s has type %s (expected %s)" % (k, cf.get(k), v))


def exec_map(term, em):
    """Terminal::execute: `Ctor(a, b) => { self.m(a, b); }` arms; returns [(ctor, binders, method, args)]"""
    lo, hi = find_impl(term, ["Terminal"])
    _, bo, bc = find_fn(term, "execute", lo, hi)
    body = term[bo + 1:bc]
    if not text(body).startswith("use Function :: * ; match fun {"):
        raise TErr("Terminal::execute: unexpected shape")
    mo = body.index(("punct", "{"), body.index(("id", "match")))
    mc = match_close(body, mo)
    if mc != len(body) - 1:
        raise TErr("Terminal::execute: trailing tokens")
    out = []
    for pat, b, is_block in parse_match_arms(body[mo + 1:mc]):
        if pat[0][0] != "id" or (len(pat) > 1 and (pat[1] != ("punct", "(") or pat[-1] != ("punct", ")"))):
            raise TErr("Terminal::execute: unsupported pattern " + text(pat))
        binders = [text(x) for x in split_top(pat[2:-1], ",")] if len(pat) > 1 else []
        if b and b[-1] == ("punct", ";"):
            b = b[:-1]
        if not (len(b) >= 5 and text(b[:2]) == "self ." and b[2][0] == "id" and b[3] == ("punct", "(")
                and match_close(b, 3) == len(b) - 1):
            raise TErr("Terminal::execute: arm %s is not a plain forward: %s" % (pat[0][1], text(b)))
        args = [text(x) for x in split_top(b[4:-1], ",")]
        if any(len(x.split()) != 1 for x in binders + args):
            raise TErr("Terminal::execute: arm %s: unsupported binder/argument" % pat[0][1])
        out.append((pat[0][1], binders, b[2][1], args))
    return out


# ------------------------------------------------------------------------------ driver

PRELUDE = """From Coq Require Import List ZArith Bool.
From Avt Require Import Model.Types.
Import ListNotations.
Local Open Scope Z_scope.
Local Open Scope bool_scope.

(** cells and erase modes as the callers build them; the pen of [ZCellNew] / [ZCellBlank] is `self.pen` *)
Inductive zcell := ZCellNew (ch : Z) | ZCellBlank | ZCellChar (ch : Z).
Inductive zerase :=
| ZNextChars (n : Z) | ZFromCursorToEndOfView | ZFromStartOfViewToCursor | ZWholeView
| ZFromCursorToEndOfLine | ZFromStartOfLineToCursor | ZWholeLine.

(** methods performed as one opaque step on the whole state *)
Inductive zfull :=
| XSaveCursor | XRestoreCursor | XSoftReset | XHardReset | XSwitchAlt | XSwitchPrimary | XReflow
| XSgr (ops : list sgr_op) | XXtwinops (op : xtwinops_op).

(** calls that leave the scalar world, with their evaluated arguments *)
Inductive zev :=
%(events)s.

(** the scalar fields of [Terminal] (usize as Z); [z_ev]: external calls, most recent first *)
Record zt := mkZt {
%(fields)s;
  z_ev : list zev
}.

%(setters)s
Definition z_emit (e : zev) (s : zt) : zt :=
  mkZt %(allf)s (e :: z_ev s).
Definition z_clear (s : zt) : zt :=
  mkZt %(allf)s [].

(** * W-mode: the non-scalar world [W] behind an interface.
    [op_ev] performs a recorded call, the [q_*] fields answer the calls that return a value;
    [None] stands for a panic inside the non-scalar world. *)
Record zops (W : Type) := mkZops {
  op_ev : W -> zev -> option W;
  op_full : zfull -> zt -> W -> option (zt * W);
  q_tabs_after : W -> Z -> Z -> option (option Z);
  q_tabs_before : W -> Z -> Z -> option (option Z);
  q_buf_char : W -> Z -> Z -> option Z;
  q_buf_cols : W -> Z;
  q_translate : charset -> Z -> option Z;
  op_buf_resize : W -> Z -> Z -> Z -> Z -> option (W * (Z * Z));
  q_sctx_col : W -> Z;
  q_sctx_row : W -> Z;
  q_sctx_org : W -> bool;
  q_sctx_awm : W -> bool;
  q_xtw : W -> bool;
  q_active : W -> btype
}.
Arguments op_buf_resize {W}. Arguments q_sctx_col {W}. Arguments q_sctx_row {W}. Arguments q_sctx_org {W}.
Arguments q_sctx_awm {W}. Arguments q_xtw {W}. Arguments q_active {W}.
Arguments op_ev {W}. Arguments op_full {W}. Arguments q_tabs_after {W}. Arguments q_tabs_before {W}. Arguments q_buf_char {W}.
Arguments q_buf_cols {W}. Arguments q_translate {W}.

Definition zb {A B : Type} (m : option A) (k : A -> option B) : option B :=
  match m with Some a => k a | None => None end.
Fixpoint zfor {A B : Type} (l : list B) (f : B -> A -> option A) (a : A) : option A :=
  match l with [] => Some a | x :: r => zb (f x a) (zfor r f) end.
Definition zrange (a b : Z) : list Z := map (fun i => a + Z.of_nat i) (seq 0 (Z.to_nat (b - a))).
Fixpoint zrun_evs {W : Type} (O : zops W) (l : list zev) (w : W) : option W :=
  match l with [] => Some w | e :: r => zb (op_ev O w e) (zrun_evs O r) end.
(** run a trace-style function inside W-mode: perform its recorded calls, oldest first *)
Definition zlift {W : Type} (O : zops W) (r : zt * bool) (w : W) : option (zt * W * bool) :=
  zb (zrun_evs O (rev (z_ev (fst r))) w) (fun w' => Some (z_clear (fst r), w', snd r)).

"""


def check_cell(cell):
    """the three ways a caller builds a cell, and the accessor used by `rep`"""
    lo, hi = find_impl(cell, ["Cell"])
    for fn, want in (("new", "Cell ( ch , pen )"), ("blank", "Cell ( ' ' , pen )"), ("char", "self . 0")):
        _, bo, bc = find_fn(cell, fn, lo, hi)
        if text(cell[bo + 1:bc]) != want:
            raise TErr("Cell::%s: unexpected body %s" % (fn, text(cell[bo + 1:bc])))
    lo, hi = find_impl(cell, ["From", "<", "char", ">", "for", "Cell"])
    _, bo, bc = find_fn(cell, "from", lo, hi)
    if text(cell[bo + 1:bc]) != "Self :: new ( value , Pen :: default ( ) )":
        raise TErr("From<char> for Cell: unexpected body")


EXEC_CONV = {"u16": "(Z.of_N %s)", "char": "(Z.of_N %s)", "Charset": "%s", "XtwinopsOp": "%s"}


def gen_termfns(term, cur, hdr, cell=None):
    check_structs(term, cur)
    if cell is not None:
        check_cell(cell)
    em = Emitter(term)
    for r in ROOTS:
        em.need(r, r != "as_usize")
    n_old = len(em.out)
    for r in ROOTS_W:
        em.need(r, True)
    zf = [(z, COQ_TY[ty]) for _, z, ty in FIELDS]
    setters = ""
    for z, ty in zf:
        setters += "Definition set_%s (v : %s) (s : zt) : zt :=\n  mkZt %s (z_ev s).\n" % (
            z, ty, " ".join("v" if z2 == z else "(%s s)" % z2 for z2, _ in zf))
    v = hdr + PRELUDE % {
        "events": "\n".join("| %s%s" % (c, " " + b if b else "") for c, b in EVENTS),
        "fields": ";\n".join("  %s : %s" % (z, ty) for z, ty in zf),
        "setters": setters,
        "allf": " ".join("(%s s)" % z for z, _ in zf),
    }
    v += "(** * trace-style functions *)\n\n" + "\n".join(d for _, d in em.out[:n_old])
    v += "\n(** * W-mode functions *)\n\n" + "\n".join(d for _, d in em.out[n_old:])
    # the Terminal::execute arms that forward to a translated function
    arms = exec_map(term, em)
    old_arms, w_arms = [], []
    for ctor, binders, meth, args in arms:
        pat = " ".join([ctor] + ["a_" + b for b in binders])
        if meth in OPAQUE:
            xc, ptys = OPAQUE[meth]
            find_fn(term, meth, em.lo, em.hi)
            if len(ptys) != len(args) or args != binders:
                raise TErr("Terminal::execute: arm %s does not match the opaque method %s" % (ctor, meth))
            x = "(%s)" % " ".join([xc] + ["a_" + a for a in args]) if args else xc
            w_arms.append("  | %s => Some (zb (op_full O %s s w) (fun '(s, w) => Some (s, w, true)))\n" % (pat, x))
            continue
        if meth not in em.fns:
            continue
        f = em.fns[meth]
        if len(args) != len(f.params) or sorted(args) != sorted(binders) or f.selfk != "mut" or f.ret is not None:
            raise TErr("Terminal::execute: arm %s does not match the signature of %s" % (ctor, meth))
        conv = []
        for a, (pn, pt) in zip(args, f.params):
            c = EXEC_CONV.get(pt, "%s" if pt in ENUMS or pt.startswith("Vec<") else None)
            if c is None:
                raise TErr("Terminal::execute: arm %s: parameter type %s" % (ctor, pt))
            conv.append(c % ("a_" + a))
        cargs = "".join(" " + c for c in conv)
        if not f.wmode:
            old_arms.append("  | %s => Some (g_%s s%s)\n" % (pat, meth, cargs))
            w_arms.append("  | %s => Some (zlift O (g_%s s%s) w)\n" % (pat, meth, cargs))
        else:
            w_arms.append("  | %s => Some (w_%s O s w%s)\n" % (pat, meth, cargs))
    v += "\n(** [Terminal::execute]: the arms that forward to the trace-style functions *)\n"
    v += "Definition g_execute (s : zt) (f : func) : option (zt * bool) :=\n  match f with\n"
    v += "".join(old_arms) + "  | _ => None\n  end.\n"
    v += "\n(** [Terminal::execute] in W-mode: every arm that forwards to a translated function *)\n"
    v += ("Definition w_execute {W : Type} (O : zops W) (s : zt) (w : W) (f : func) "
          ": option (option (zt * W * bool)) :=\n  match f with\n")
    v += "".join(w_arms) + ("  | _ => None\n" if len(w_arms) < len(arms) else "") + "  end.\n"
    return v, [n for n, _ in em.out], len(w_arms)
