"""Tiny Rust tokenizer + helpers used by avt2coq.py (no regex over whole functions).

Tokens are (kind, text) with kind in {id, num, char, str, punct, life}.  Comments
and whitespace are dropped.  Only the constructs that occur in asciinema/avt
are supported; anything else raises LexError, which the translator reports as a
broken tie.
"""


class LexError(Exception):
    pass


PUNCT3 = ["..=", "<<=", ">>=", "..."]
PUNCT2 = ["=>", "==", "!=", "<=", ">=", "&&", "||", "::", "->", "+=", "-=", "*=", "/=",
          "%=", "|=", "&=", "^=", "..", "<<", ">>"]


def lex(src):
    toks = []
    i, n = 0, len(src)
    while i < n:
        c = src[i]
        if c.isspace():
            i += 1
            continue
        if src.startswith("//", i):
            j = src.find("\n", i)
            i = n if j < 0 else j
            continue
        if src.startswith("/*", i):
            j = src.find("*/", i)
            if j < 0:
                raise LexError("unterminated comment")
            i = j + 2
            continue
        if c.isalpha() or c == "_":
            j = i
            while j < n and (src[j].isalnum() or src[j] == "_"):
                j += 1
            toks.append(("id", src[i:j]))
            i = j
            continue
        if c.isdigit():
            j = i
            while j < n and (src[j].isalnum() or src[j] == "_"):
                j += 1
            toks.append(("num", src[i:j]))
            i = j
            continue
        if c == '"':
            j = i + 1
            while j < n and src[j] != '"':
                if src[j] == "\\":
                    j += 1
                j += 1
            toks.append(("str", src[i:j + 1]))
            i = j + 1
            continue
        if c == "'":
            # char literal or lifetime
            if i + 2 < n and src[i + 1] == "\\":
                j = src.find("'", i + 2)
                # '\'' special
                if src[i + 2] == "'":
                    j = src.find("'", i + 3)
                toks.append(("char", src[i:j + 1]))
                i = j + 1
                continue
            # non-escaped: 'x' (x may be multibyte)
            if i + 2 < n and src[i + 2] == "'":
                toks.append(("char", src[i:i + 3]))
                i += 3
                continue
            # lifetime
            j = i + 1
            while j < n and (src[j].isalnum() or src[j] == "_"):
                j += 1
            toks.append(("life", src[i:j]))
            i = j
            continue
        for p in PUNCT3:
            if src.startswith(p, i):
                toks.append(("punct", p))
                i += 3
                break
        else:
            for p in PUNCT2:
                if src.startswith(p, i):
                    toks.append(("punct", p))
                    i += 2
                    break
            else:
                toks.append(("punct", c))
                i += 1
    return toks


def char_value(tok):
    """Code point of a Rust char literal token."""
    s = tok[1:-1]
    if s.startswith("\\u{"):
        return int(s[3:-1], 16)
    if s.startswith("\\x"):
        return int(s[2:], 16)
    if s.startswith("\\"):
        return {"n": 10, "r": 13, "t": 9, "0": 0, "\\": 92, "'": 39, '"': 34}[s[1]]
    if len(s) != 1:
        raise LexError("bad char literal " + tok)
    return ord(s)


def num_value(tok):
    t = tok.replace("_", "")
    for suf in ("usize", "u8", "u16", "u32", "u64", "isize", "i64", "i32"):
        if t.endswith(suf):
            t = t[: -len(suf)]
    if t.startswith("0x"):
        return int(t[2:], 16)
    return int(t)


def match_close(toks, i):
    """toks[i] is an opening bracket; return index of the matching closer."""
    op = toks[i][1]
    cl = {"(": ")", "[": "]", "{": "}"}[op]
    d = 0
    for j in range(i, len(toks)):
        k, t = toks[j]
        if k == "punct" and t == op:
            d += 1
        elif k == "punct" and t == cl:
            d -= 1
            if d == 0:
                return j
    raise LexError("unbalanced " + op)


def find_fn(toks, name, start=0, end=None):
    """Return (sig_start, body_open, body_close) of `fn name` in toks[start:end]."""
    end = len(toks) if end is None else end
    for i in range(start, end - 1):
        if toks[i] == ("id", "fn") and toks[i + 1] == ("id", name):
            j = i
            while toks[j] != ("punct", "{"):
                j += 1
            return i, j, match_close(toks, j)
    raise LexError("fn %s not found" % name)


def find_impl(toks, header):
    """Find `impl <header tokens> {`; header is a list of token texts."""
    n = len(header)
    for i in range(len(toks) - n - 1):
        if toks[i] == ("id", "impl") and [t for _, t in toks[i + 1:i + 1 + n]] == header \
                and toks[i + 1 + n] == ("punct", "{"):
            return i + 1 + n, match_close(toks, i + 1 + n)
    raise LexError("impl %s not found" % " ".join(header))


def strip_cfg_items(toks, cfgs=("test", "avt_verif")):
    """Remove items annotated #[cfg(test)] / #[cfg(avt_verif)] (attribute + following item)."""
    out = []
    i = 0
    while i < len(toks):
        if (toks[i] == ("punct", "#") and i + 6 < len(toks) and toks[i + 1] == ("punct", "[")
                and toks[i + 2] == ("id", "cfg") and toks[i + 3] == ("punct", "(")
                and toks[i + 4][1] in cfgs and toks[i + 5] == ("punct", ")")
                and toks[i + 6] == ("punct", "]")):
            j = i + 7
            # skip further attributes
            while toks[j] == ("punct", "#"):
                j = match_close(toks, j + 1) + 1
            # skip the item: up to first '{' ... matching '}' or ';'
            while toks[j] not in (("punct", "{"), ("punct", ";")):
                j += 1
            if toks[j] == ("punct", "{"):
                j = match_close(toks, j)
            i = j + 1
            continue
        out.append(toks[i])
        i += 1
    return out


def text(toks):
    return " ".join(t for _, t in toks)


def split_top(toks, sep=","):
    """Split a token list on top-level separators."""
    out, cur, d = [], [], 0
    for k, t in toks:
        if k == "punct" and t in "([{":
            d += 1
        elif k == "punct" and t in ")]}":
            d -= 1
        if d == 0 and k == "punct" and t == sep:
            out.append(cur)
            cur = []
        else:
            cur.append((k, t))
    if cur:
        out.append(cur)
    return out


def parse_match_arms(toks):
    """toks = contents between the braces of a match; returns list of (pattern toks, body toks).
    Bodies are either `{ ... }` blocks (returned without braces, flag True) or expressions."""
    arms = []
    i = 0
    while i < len(toks):
        # pattern up to '=>' at depth 0
        d = 0
        j = i
        while True:
            k, t = toks[j]
            if k == "punct" and t in "([{":
                d += 1
            elif k == "punct" and t in ")]}":
                d -= 1
            elif d == 0 and k == "punct" and t == "=>":
                break
            j += 1
        pat = toks[i:j]
        j += 1
        if toks[j] == ("punct", "{"):
            c = match_close(toks, j)
            body = toks[j + 1:c]
            is_block = True
            j = c + 1
            if j < len(toks) and toks[j] == ("punct", ","):
                j += 1
        else:
            d = 0
            s = j
            while j < len(toks):
                k, t = toks[j]
                if k == "punct" and t in "([{":
                    d += 1
                elif k == "punct" and t in ")]}":
                    d -= 1
                elif d == 0 and k == "punct" and t == ",":
                    break
                j += 1
            body = toks[s:j]
            is_block = False
            j += 1
        arms.append((pat, body, is_block))
        i = j
    return arms
