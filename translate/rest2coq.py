"""rest2coq: the remaining hand-modelled pieces of src/parser.rs (Parser::clear / collect / param, Param::*),
src/charset.rs (Charset::translate), src/util.rs (TextUnwrapper, TextCollector::flush) and src/buffer.rs
(Buffer::text / logical_position / relative_position / resize, Reflow::next, reflow) as Gallina (Gen/RestFns.v),
one definition `g_<type>_<fn>` per Rust function.  Built on buf2coq (same AST, same places / guards / panic monad); this file
adds the syntax and the semantics those functions need:

  * integer types: `usize` nat; `u8` / `u16` / `u32` / `char` N (the Rust type is tracked, so that casts are
    exact: a widening cast is the identity, `x as u8` / `as u16` is `x mod 2^w`, `c as usize` is `N.to_nat c`);
    `isize` Z: `n as isize` is `Z.of_nat n`, `z as usize` emits `guard (0 <=? z)` (Rust would wrap; the guard
    makes the tie fail if a negative value can reach the cast).  `a - b` on unsigned types emits
    `guard (b <=? a)`; `+`, `*` are not checked for overflow (as in buf2coq), neither is `-` on isize;
  * `String` / `&str` are `list N` (code points): push_str `++`, `trim_end` is Model/Dump.v [trim_end] (std
    contract), `mem::take(&mut p)` yields p and stores the empty value, `to_owned` is the identity;
  * `a..=b` is `a..S b`; `v.last_mut().unwrap()` is the place `v[len - 1]` after `guard (1 <=? len)`;
    `v.drain(..)` yields v and stores []; `v.extend(opt)` appends 0 or 1 element;
  * `a && b` / `a || b` where b can panic: `t <- (if a then ..b.. else Ok false)` (short circuit kept);
  * `match x.cmp(&y)` is `match Nat.compare x y`; `match` on Charset / Option / tuples of those: the patterns
    are re-emitted as Coq patterns (Coq checks exhaustiveness);
  * `for x in it { body }`     `foldM (fun st x => body) it st`   (st = the locals assigned in the body);
    `for x in &mut place { body }`   `mapM (fun x => body) place`  (the body may assign x only);
    `it.filter_map(|x| body)` with a body that assigns captured locals: `filter_mapM`;
  * `while c { body }`: a `Fixpoint g_.._loopK (fuel : nat) ..` on a FUEL argument (`Panic site_fuel` when it
    is exhausted; the convention of Model/Prims.v) whose body is the translated condition and loop body; the
    enclosing function takes one fuel parameter per loop.  A call of a function that has fuel parameters (or
    of `reflow`) from another translated function is ABSTRACTED: the caller takes the callee as a parameter
    `c_<fn>` (so Buffer::resize is translated once, for any implementation of relative_position / reflow);
  * `impl Iterator for Reflow` (`fn next` = `while let Some(x) = C { B } T`) is generated as what `collect()` does
    with it (RFnTr.emit_collect): one Fixpoint `g_reflow_collect fuel self acc`, one unit of fuel per evaluation
    of C; `return Some(v)` in B is `acc ++ [v]` and the loop again (all the state of `next` is in `self`), a T that
    yields Some(v) likewise, None ends.  `opt.take()`, `it.next()` (an iterator is the list of its items),
    `a.or_else(|| b)` and `opt.map(|x| {..})` with effects in b / the block are sequenced in the monad;
  * functions already regenerated in Gen/BufFns.v (Buffer::extend, Line::contract, ...) are called, not re-emitted.

Anything else raises TErr naming the construct.  Guards of function number k carry the site 200+k.
"""
import contextlib

import buf2coq as B
from buf2coq import TErr, Lens, Var, atom, mentions
from rustlex import char_value, find_fn, find_impl, num_value, text

# (type, fn) in emission order (callees are pulled in before their callers)
ROOTS = [
    ("Param", "clear"), ("Param", "add_part"), ("Param", "add_digit"), ("Param", "as_u16"), ("Param", "parts"),
    ("Parser", "clear"), ("Parser", "collect"), ("Parser", "param"),
    ("Charset", "translate"),
    ("Buffer", "text"), ("TextUnwrapper", "push"), ("TextUnwrapper", "flush"), ("TextCollector", "flush"),
    ("Buffer", "logical_position"), ("Buffer", "relative_position"), ("Buffer", "resize"),
    ("Reflow", "next"), ("Reflow", "reflow"),
]
FILE_OF = {"Param": "parser", "Parser": "parser", "Charset": "charset", "TextUnwrapper": "util",
           "TextCollector": "util", "Buffer": "buffer", "Line": "line", "Reflow": "buffer"}
PREFIX = {"Param": "param", "Parser": "parser", "Charset": "charset", "TextUnwrapper": "unwrapper",
          "TextCollector": "collector", "Buffer": "buffer", "Line": "line", "Reflow": "reflow"}
SECTION = [("parser.rs", ("Param", "Parser")), ("charset.rs", ("Charset",)), ("util.rs", ("TextUnwrapper", "TextCollector")),
           ("buffer.rs", ("Buffer", "Reflow"))]
STRING = ("list", "char")
SELF_TY = {"Param": "param", "Parser": "parser", "Charset": "charset", "TextUnwrapper": "unwrapper",
           "TextCollector": "collector", "Buffer": "buffer", "Line": "line", "Reflow": "reflow"}
STRUCT_TY = {"param": "Param", "parser": "Parser", "unwrapper": "TextUnwrapper", "collector": "TextCollector",
             "buffer": "Buffer", "line": "Line", "limit": "ScrollbackLimit", "reflow": "Reflow"}
# struct -> (constructor, [(rust field, rust type text, projection, model type)]); checked against the source.
# TextUnwrapper is its single field (projection None); TextCollector is the pair (vt, unwrapper)
STRUCTS = dict(B.STRUCTS)
STRUCTS.update({
    "Param": ("mkParam", [("cur_part", "usize", "cur_part", "nat"),
                          ("parts", "[ u16 ; MAX_PARAM_LEN ]", "parts", ("list", "u16"))]),
    "Parser": ("mkParser", [("state", "State", "pst", "pstate"), ("params", "[ Param ; PARAMS_LEN ]", "params", ("list", "param")),
                            ("cur_param", "usize", "cur_param", "nat"),
                            ("intermediate", "Option < char >", "inter", ("option", "char"))]),
    "TextUnwrapper": (None, [("wrapped_line", "String", None, STRING)]),
    "TextCollector": (None, [("vt", "Vt", "fst", "vt"), ("unwrapper", "TextUnwrapper", "snd", "unwrapper")]),
    # the iterator `iter: I` is the list of the lines it will yield (record reflow_st of the prelude)
    "Reflow": ("mkReflow", [("iter", "I", "r_iter", ("list", "line")), ("cols", "usize", "r_cols", "nat"),
                            ("rest", "Option < Line >", "r_rest", ("option", "line"))]),
})
REFLOW_DECL = "struct Reflow < I > where I : Iterator < Item = Line > , { pub iter : I , pub cols : usize , pub rest : Option < Line > , }"
REFLOW_IMPL = ["<", "I", ":", "Iterator", "<", "Item", "=", "Line", ">>", "Iterator", "for", "Reflow", "<", "I", ">"]
STRUCT_FILE = {"Param": "parser", "Parser": "parser", "TextUnwrapper": "util", "TextCollector": "util"}
NTY = {"u8": 2 ** 8, "u16": 2 ** 16, "u32": 2 ** 32, "char": 0x110000}
COQ_TY = {"limit": "(N * N)", "u8": "N", "u16": "N", "u32": "N", "char": "N", "isize": "Z", "int": "nat",
          "unwrapper": "list N", "collector": "(vt * list N)", "reflow": "reflow_st"}
SIMPLE_TY = {"u8": "u8", "u16": "u16", "u32": "u32", "char": "char", "isize": "isize", "String": STRING, "str": STRING,
             "Charset": "charset", "Vt": "vt", "Param": "param",
             "LogicalPosition": ("tuple", ["nat", "nat"]), "RelativePosition": ("tuple", ["nat", "isize"])}
ALIASES = ["type LogicalPosition = ( usize , usize ) ;", "type RelativePosition = ( usize , isize ) ;",
           "type VisualPosition = ( usize , usize ) ;"]
ENUMS = {"charset": ("Charset", {"Ascii": "CsAscii", "Drawing": "CsDrawing"})}
# constants used by name: the Coq constant of Gen/Consts.v (regenerated from the same source) after a check of the type
CONSTS = {"PARAMS_LEN": ("parser", "usize", "nat"), "SPECIAL_GFX_CHARS": ("charset", "[ char ; 31 ]", ("list", "char"))}
# one-line functions used as primitives: (file, impl header, fn, body) -> checked
EXTERN_CHECKS = [
    ("line", "Line", "text", "self . chars ( ) . collect ( )"),
    ("line", "Line", "chars", "self . cells . iter ( ) . map ( Cell :: char )"),
    ("cell", "Cell", "char", "self . 0"),
    ("vt", "Vt", "lines", "self . terminal . lines ( )"),
    ("terminal", "Terminal", "lines", "self . buffer . lines ( )"),
    ("buffer", "Buffer", "lines", "& self . lines [ .. ]"),
    ("line", "Line", "len", "self . cells . len ( )"),
]
# free functions that are always abstracted in their callers: name -> (signature text, parameter type)
ABSTRACT_FREE = {"reflow": ("fn reflow < I : Iterator < Item = Line >> ( iter : I , cols : usize ) -> Vec < Line >",
                            [("list", "line"), "nat"], ("list", "line"))}


B_CTY = B.cty


def cty(t):
    return COQ_TY.get(t, t) if isinstance(t, str) else B_CTY(t)       # B_CTY recurses through the patched B.cty


def cty_a(t):
    s = cty(t)
    return "(%s)" % s if " " in s and not s.startswith("(") else s


@contextlib.contextmanager
def patched():
    """buf2coq's tables are module globals: extend them for the duration of one generation"""
    names = {"STRUCTS": STRUCTS, "SELF_TY": SELF_TY, "FILE_OF": FILE_OF, "PREFIX": PREFIX, "STRUCT_TY": STRUCT_TY, "cty": cty}
    old = {k: getattr(B, k) for k in names}
    try:
        for k, v in names.items():
            setattr(B, k, v)
        yield
    finally:
        for k, v in old.items():
            setattr(B, k, v)


# ------------------------------------------------------------------------------ syntax

class RParser(B.Parser):
    """buf2coq.Parser + `..=`, `as`, unary `-`, char / hex literals, path and literal patterns, typed `let`,
    `while`, closures with a block body, `assert!`, `use std::cmp::Ordering::*`.
    New nodes: ('char', n) ('succ', e) ('neg', e) ('cast', e, ty) ('assert', e) ('blockexpr', block) ('pbool', b)
               statement ('while', cond, block)"""

    def ty(self, self_ty):
        k, t = self.peek()
        if k == "id" and t in SIMPLE_TY:
            self.eat()
            return SIMPLE_TY[t]
        if self_ty == "reflow" and k == "id" and t == "Self" and self.at("::", 1) and self.at("Item", 2):
            self.i += 3
            return "line"                               # impl Iterator for Reflow: type Item = Line (checked)
        if self_ty == "reflow-generic" and k == "id" and t == "I":
            self.eat()
            return ("list", "line")                     # I: Iterator<Item = Line>
        return super().ty(self_ty)

    def pat(self):
        k, t = self.peek()
        if k == "id" and t in ("true", "false"):
            self.eat()
            return ("pbool", t == "true")
        if k == "id" and self.at("::", 1):
            names = [self.eat(kind="id")]
            while self.at("::"):
                self.eat()
                names.append(self.eat(kind="id"))
            ps = []
            if self.at("("):
                self.eat()
                while not self.at(")"):
                    ps.append(self.pat())
                    if not self.at(")"):
                        self.eat(",")
                self.eat(")")
            return ("pctor", "::".join(names), ps)
        return super().pat()

    def block(self):
        self.eat("{")
        stmts, tail = [], None
        while not self.at("}"):
            if tail is not None:
                self.err("expression without `;` in the middle of a block")
            if self.at("use"):
                self.eat()
                path = []
                while not self.at(";"):
                    path.append(self.eat())
                self.eat(";")
                if "".join(path) not in ("std::cmp::Ordering::*", "EraseMode::*"):
                    self.err("unsupported `use %s`" % "".join(path))
                continue
            if self.at("let"):
                self.eat()
                p = self.pat()
                if self.at(":"):
                    self.eat()
                    self.ty(None)                      # the annotation is checked by rustc, the value decides here
                self.eat("=")
                e = self.expr()
                self.eat(";")
                stmts.append(("let", p, e))
                continue
            if self.at("return"):
                self.eat()
                e = None if self.at(";") else self.expr()
                self.eat(";")
                stmts.append(("return", e))
                continue
            if self.at("for"):
                self.eat()
                p = self.pat()
                self.eat("in")
                e = self.expr(no_struct=True)
                stmts.append(("for", p, e, self.block()))
                continue
            if self.at("while"):
                self.eat()
                if self.at("let"):
                    self.eat()
                    p = self.pat()
                    self.eat("=")
                    c = self.expr(no_struct=True)
                    stmts.append(("whilelet", p, c, self.block()))
                    continue
                c = self.expr(no_struct=True)
                stmts.append(("while", c, self.block()))
                continue
            if self.peek()[0] == "id" and self.peek()[1] in ("loop", "break", "continue", "unsafe", "fn", "const", "static"):
                self.err("unsupported statement `%s`" % self.peek()[1])
            e = self.expr()
            k, t = self.peek()
            if t in ("=", "+=", "-=") and k == "punct":
                self.eat()
                rhs = self.expr()
                self.eat(";")
                stmts.append(("assign", e, t, rhs))
            elif t == ";":
                self.eat()
                stmts.append(("expr", e))
            elif e[0] in ("if", "iflet", "match") and not self.at("}"):
                stmts.append(("expr", e))
            elif self.at("}"):
                tail = e
            else:
                self.err("unsupported statement form (after an expression: %r)" % t)
        self.eat("}")
        return (stmts, tail)

    def expr(self, no_struct=False):
        old, self.no_struct = getattr(self, "no_struct", False), no_struct
        try:
            a = None if self.at("..") or self.at("..=") else self.binary(0)
            if self.at("..") or self.at("..="):
                incl = self.eat() == "..="
                if self.at("]") or self.at(")"):
                    if incl:
                        self.err("`..=` without an end")
                    return ("range", a, None)
                b = self.binary(0)
                return ("range", a, ("succ", b) if incl else b)
            return a
        finally:
            self.no_struct = old

    def unary(self):                                    # the level of `as`
        e = self.prefix()
        while self.at("as"):
            self.eat()
            e = ("cast", e, self.ty(None))
        return e

    def prefix(self):
        if self.at("-"):
            self.eat()
            return ("neg", self.prefix())
        if self.at("!"):
            self.eat()
            return ("not", self.prefix())
        if self.at("&"):
            self.eat()
            m = self.at("mut")
            if m:
                self.eat()
            return ("ref", self.prefix(), m)
        if self.at("&&"):
            self.err("unsupported: `&&` reference")
        if self.at("*"):
            self.eat()
            return ("deref", self.prefix())
        return self.postfix()

    def primary(self):
        k, t = self.peek()
        if k == "char":
            self.eat()
            return ("char", char_value(t))
        if k == "num" and not t.isdigit():
            self.eat()
            try:
                return ("num", num_value(t))
            except ValueError:
                self.err("unsupported numeric literal " + t)
        if k == "punct" and t in ("|", "||"):
            self.eat()
            ps = []
            while t == "|" and not self.at("|"):
                ps.append(self.pat())
                if self.at(":"):
                    self.err("unsupported: closure parameter type")
                if not self.at("|"):
                    self.eat(",")
            if t == "|":
                self.eat("|")
            return ("closure", ps, ("blockexpr", self.block()) if self.at("{") else self.expr())
        if k == "id" and t == "assert" and self.at("!", 1):
            self.i += 2
            a = self.args()
            if len(a) != 1:
                self.err("unsupported: assert! with a message")
            return ("assert", a[0])
        return super().primary()


# ------------------------------------------------------------------------------ one function

class RFnTr(B.FnTr):
    def __init__(self, tr, f, site):
        super().__init__(tr, f, site)
        self.loops, self.fuels, self.callees = [], [], {}
        self.in_loop = False
        self.fused = None                                # name of the fused collect loop while its body is translated

    # -- top level
    def emit(self):
        f = self.f
        env, binders = {}, []
        sty = SELF_TY[f.tname]
        if f.selfk:
            env["self"] = Var("self", sty)
            binders.append("(self : %s)" % cty(sty))
        for pt, ty in f.params:
            binders += self.bind_param(pt, ty, env)
        if f.selfk == "mut":
            rty = cty(sty) if f.ret is None else "(%s * %s)" % (cty_a(sty), cty_a(f.ret))
        else:
            if f.ret is None:
                self.err("unsupported: unit function without `&mut self`")
            rty = cty(f.ret)
        lines = self.block(f.body, env, lambda env2, val: [self.ret_line(env2, val)], unit=f.ret is None, nested=False)
        f.fuels = list(self.fuels)
        extra = ["(%s : nat)" % x for x in self.fuels] + ["(%s : %s)" % kv for kv in self.callees.items()]
        return "".join(self.loops) + "Definition %s %s : res %s :=\n%s.\n" % (
            f.gname, " ".join(extra + binders), atom(rty), "\n".join("  " + x for x in lines))

    def emit_collect(self):
        """`Iterator::collect()` over this `next`, which must be `while let P = C { B } T`.  collect calls next until it
        yields None and pushes the items; all the state of next is in `self`, so a `return Some(v)` in B is `push v` and
        the next iteration of the loop, a `T` that yields Some(v) is `push v` and the loop again, None ends.  One
        Fixpoint on fuel, one unit per evaluation of C (the fuel convention of Model/Prims.v [reflow_go])."""
        f = self.f
        stmts, tail = f.body
        if f.selfk != "mut" or f.params or len(stmts) != 1 or stmts[0][0] != "whilelet" or tail is None:
            self.err("unsupported shape of an iterator `next` (expected `while let .. { .. } tail`)")
        _, pat, cond, blk = stmts[0]
        env = {"self": Var("self", SELF_TY[f.tname])}
        self.fused = "%s_collect" % f.gname[:-len("_next")]
        pre = []
        gc, tc = self.expr(cond, env, pre)
        if not (isinstance(tc, tuple) and tc[0] == "option") or pat[0] != "pctor" or pat[1] != "Some":
            self.err("unsupported `while let` (not `Some(x) = <option>`)")
        self.unify(("option", f.ret[1] if isinstance(f.ret, tuple) else None), f.ret, "next")
        env2 = dict(env)
        p = self.cpat(pat, tc, env2)
        body = self.block(blk, env2, lambda e3, v: [self.rec("acc")], unit=True)
        tpre = []
        gt, tt = self.expr(tail, env, tpre)
        self.unify(tt, f.ret, "value of next")
        lines = pre + ["match %s with" % gc, "| %s =>" % p] + ["  " + x for x in body] + ["| None =>"] + \
            ["  " + x for x in tpre + ["match %s with" % gt, "| Some x => " + self.rec("(acc ++ [x])"), "| None => Ok acc", "end"]] + ["end"]
        if self.fuels or self.callees:
            self.err("unsupported: loops / abstracted calls inside an iterator `next`")
        return ("Fixpoint %s (fuel : nat) (self : %s) (acc : list %s) {struct fuel} : res (list %s) :=\n  match fuel with\n"
                "  | O => Panic site_fuel\n  | S fuel =>\n%s\n  end.\n") % (
            self.fused, cty(SELF_TY[f.tname]), cty_a(f.ret[1]), cty_a(f.ret[1]), "\n".join("    " + x for x in lines))

    def rec(self, acc):
        return "%s fuel self %s" % (self.fused, acc)

    def unify(self, a, b, what):
        if a == "int" and (b is None or b in NTY or b in ("nat", "isize", "int")):
            return b or a
        if b == "int" and (a is None or a in NTY or a in ("nat", "isize")):
            return a or b
        return super().unify(a, b, what)

    def bind_pat(self, pat, val, env, pre):
        g, ty = val
        return super().bind_pat(pat, (g, "nat" if ty == "int" else ty), env, pre)       # an unsuffixed literal: usize

    # -- statements
    def stmt(self, st, env, rest, k):
        if st[0] == "return" and self.fused:
            e, pre = st[1], []
            self.check_no_borrow(env)
            if e == ("path", ["None"]):
                return ["Ok acc"], True
            if e is None or e[0] != "call" or e[1] != ["Some"] or len(e[2]) != 1:
                self.err("unsupported `return` in an iterator `next` (not Some(..) / None)")
            g, t = self.expr(e[2][0], env, pre)
            self.unify(("option", t), self.f.ret, "return")
            return pre + [self.rec("(acc ++ [%s])" % g)], True
        if st[0] == "whilelet":
            self.err("unsupported statement `while let` (outside an iterator `next`)")
        if st[0] == "while":
            pre = []
            self.while_loop(st, env, pre)
            return pre, False
        if st[0] == "expr" and st[1] == ("tuple", []):
            return [], False
        if st[0] == "expr" and st[1][0] == "assert":
            pre = []
            g, ty = self.expr(st[1][1], env, pre)
            if ty != "bool":
                self.err("assert! of a value of type %s" % (ty,))
            self.guard(pre, g, "assert!")
            return pre, False
        return super().stmt(st, env, rest, k)

    def state(self, env, names):
        """(tuple expression, binder pattern, Coq type) of the locals `names`"""
        if any(env[x].ty == "range" or env[x].alias is not None for x in names):
            self.err("unsupported: a range / a live `&mut` borrow assigned inside a loop")
        gs = [env[x].g for x in names]
        if not gs:
            return "tt", "(_ : unit)", lambda: "unit"
        if len(gs) == 1:
            return gs[0], gs[0], lambda: cty(env[names[0]].ty)
        tup = "(%s)" % ", ".join(gs)
        return tup, "'" + tup, lambda: "(%s)" % " * ".join(cty_a(env[x].ty) for x in names)

    def body_of(self, blk, env, x=None, ety=None):
        """translate a loop body / closure body that ends in the marker @K@; returns (lines, assigned outer locals)"""
        if B.has_return(blk):
            self.err("unsupported: `return` inside a loop")
        env2 = dict(env)
        if x is not None:
            env2[x] = Var("v_" + x, ety)
        self.muts.append(set())
        lines = self.block(blk, env2, lambda e3, v: ["@K@"], unit=True)
        m = self.muts.pop()
        for s in self.muts:
            s.update(n for n in m if n in env)
        return lines, m

    def for_loop(self, st, env, pre):
        pat, it, blk = st[1], st[2], st[3]
        if pat[0] != "pvar" or pat[1] in env:
            self.err("unsupported `for` pattern (not a fresh variable)")
        x = pat[1]
        if it[0] == "ref" and it[2]:                                   # for x in &mut place { .. }
            lens = self.place(it[1], env, pre)
            if not (isinstance(lens.ty, tuple) and lens.ty[0] == "list"):
                self.err("unsupported `for` over a value of type %s" % (lens.ty,))
            lst = self.load(lens, pre)
            body, m = self.body_of(blk, env, x, lens.ty[1])
            if [n for n in env if n in m]:
                self.err("unsupported: `for .. in &mut ..` whose body assigns %s" % [n for n in env if n in m])
            t = self.fresh()
            self.put(pre, "%s <- mapM (fun v_%s =>" % (t, x))
            pre.extend("  " + ln.replace("@K@", "Ok v_" + x) for ln in body)
            self.put(pre, "  ) %s ;;" % atom(lst))
            self.store(pre, lens, t, env)
            return
        lst, lty = self.expr(it, env, pre)
        if not (isinstance(lty, tuple) and lty[0] == "list"):
            self.err("unsupported `for` iterator of type %s" % (lty,))
        body, m = self.body_of(blk, env, x, lty[1])
        if x in m:
            self.err("unsupported: the `for` variable is assigned")
        names = [n for n in env if n in m]
        tup, binder, _ = self.state(env, names)
        self.put(pre, "%s <- foldM (fun %s v_%s =>" % (binder.replace("(_ : unit)", "_"), binder, x))
        pre.extend("  " + ln.replace("@K@", "Ok " + tup) for ln in body)
        self.put(pre, "  ) %s %s ;;" % (atom(lst), tup))

    def while_loop(self, st, env, pre):
        cond, blk = st[1], st[2]
        if self.in_loop:
            self.err("unsupported: nested `while`")
        self.in_loop = True
        k = len(self.loops) + 1
        name, fuel = "%s_loop%d" % (self.f.gname, k), "fuel%d" % k
        self.muts.append(set())
        cpre = []
        gc, tc = self.expr(cond, dict(env), cpre)
        if tc != "bool":
            self.err("`while` condition of type %s" % (tc,))
        if self.muts.pop():
            self.err("unsupported: assignment in a `while` condition")
        body, m = self.body_of(blk, env)
        self.in_loop = False
        names = [n for n in env if n in m]
        free = [n for n in env if mentions([cond, blk], n)]
        tup, binder, tty = self.state(env, names)
        self.state(env, free)
        rec = "%s fuel %s" % (name, " ".join(env[n].g for n in free))
        lines = cpre + ["if %s then" % gc] + ["  " + ln.replace("@K@", rec) for ln in body] + ["else Ok " + tup]
        self.loops.append(
            "Fixpoint %s (fuel : nat) %s {struct fuel} : res %s :=\n  match fuel with\n  | O => Panic site_fuel\n  | S fuel =>\n%s\n  end.\n\n"
            % (name, " ".join("(%s : %s)" % (env[n].g, cty(env[n].ty)) for n in free), atom(tty()),
               "\n".join("    " + ln for ln in lines)))
        self.fuels.append(fuel)
        self.put(pre, "%s <- %s %s %s ;;" % (binder.replace("(_ : unit)", "_"), name, fuel, " ".join(env[n].g for n in free)))
        for n in names:
            for s in self.muts:
                s.add(n)

    # -- conditionals
    def cpat(self, p, ty, env2):
        """a Rust pattern as a Coq pattern; binds the variables in env2"""
        if p[0] == "pwild":
            return "_"
        if p[0] == "pvar":
            if ty is None or ty == "range":
                self.err("cannot type the pattern variable %s" % p[1])
            env2[p[1]] = Var("v_" + p[1], ty)
            return "v_" + p[1]
        if p[0] == "pbool" and ty == "bool":
            return "true" if p[1] else "false"
        if p[0] == "ptuple" and isinstance(ty, tuple) and ty[0] == "tuple" and len(ty[1]) == len(p[1]):
            return "(%s)" % ", ".join(self.cpat(q, t, env2) for q, t in zip(p[1], ty[1]))
        if p[0] == "pctor" and isinstance(ty, tuple) and ty[0] == "option":
            if p[1] == "Some" and len(p[2]) == 1:
                return "Some %s" % self.cpat(p[2][0], ty[1], env2)
            if p[1] == "None" and not p[2]:
                return "None"
        if p[0] == "pctor" and ty in ENUMS and not p[2]:
            ename, ctors = ENUMS[ty]
            parts = p[1].split("::")
            if parts[:-1] in ([ename], ["Self"]) and parts[-1] in ctors:
                return ctors[parts[-1]]
        if p[0] == "pctor" and ty == "ordering" and not p[2] and p[1].split("::")[:-1] in ([], ["Ordering"]):
            c = {"Less": "Lt", "Equal": "Eq", "Greater": "Gt"}.get(p[1].split("::")[-1])
            if c:
                return c
        self.err("unsupported pattern %s at type %s" % (p, ty))

    def branches(self, e, env, pre):
        if e[0] != "match":
            return super().branches(e, env, pre)
        scrut = e[1]
        if scrut[0] == "mcall" and scrut[2] == "cmp" and len(scrut[3]) == 1:
            ga, ta = self.expr(scrut[1], env, pre)
            gb, tb = self.expr(scrut[3][0], env, pre)
            if self.unify(ta, tb, "cmp") not in ("nat", "int"):
                self.err("unsupported: cmp at type %s" % (ta,))
            g, ty = "Nat.compare %s %s" % (atom(ga), atom(gb)), "ordering"
        else:
            g, ty = self.expr(scrut, env, pre)
        if ty == "erase_mode":
            return super().branches(e, env, pre)
        out = []
        for pat, body in e[2]:
            env2 = dict(env)
            out.append(("| %s =>" % self.cpat(pat, ty, env2), body, env2))
        if not out:
            self.err("empty match")
        out[0] = ("match %s with\n%s" % (g, out[0][0]), out[0][1], out[0][2])
        return out, "end"

    # -- places
    def place(self, e, env, pre):
        k = e[0]
        if k == "path" and len(e[1]) == 1 and e[1][0] in CONSTS:
            return Lens("var", CONSTS[e[1][0]][2], name=None, g=e[1][0])
        if k == "mcall" and e[2] == "unwrap" and not e[3] and e[1][0] == "mcall" and e[1][2] in ("last", "last_mut") and not e[1][3]:
            p = self.place(e[1][1], env, pre)
            if not (isinstance(p.ty, tuple) and p.ty[0] == "list") or p.kind not in ("var", "field"):
                self.err("unsupported: .last() of a value of type %s" % (p.ty,))
            n = self.plen(p, pre)
            self.guard(pre, "1 <=? %s" % n, "last().unwrap()")
            return Lens("elem", p.ty[1], par=p, a="%s - 1" % n)
        if k == "mcall" and e[2] == "lines" and not e[3]:
            p = self.place(e[1], env, pre)
            if p.ty == "vt":
                return Lens("ro", ("list", "line"), g="lines (buf (vterm %s))" % atom(self.load(p, pre)))
        return super().place(e, env, pre)

    def field_lens(self, p, name):
        if isinstance(p.ty, tuple) and p.ty[0] == "tuple" and len(p.ty[1]) == 2 and name in ("0", "1"):
            return Lens("field", p.ty[1][int(name)], par=p, a=("fst", "snd")[int(name)])
        sname = STRUCT_TY.get(p.ty) if isinstance(p.ty, str) else None
        if sname in STRUCTS and len(STRUCTS[sname][1]) == 1 and STRUCTS[sname][1][0][2] is None \
                and name == STRUCTS[sname][1][0][0] and p.kind in ("var", "field", "ro"):
            return Lens(p.kind, STRUCTS[sname][1][0][3], par=p.par, a=p.a, b=p.b, name=p.name, g=p.g)    # a newtype
        if sname == "TextCollector" and p.kind == "var":
            for rf, _, proj, ty in STRUCTS[sname][1]:
                if rf == name:
                    return Lens("ro", ty, g="%s %s" % (proj, atom(p.g)))
        return super().field_lens(p, name)

    def store(self, pre, lens, new, env):
        if lens.kind == "field" and isinstance(lens.par.ty, tuple) and lens.par.ty[0] == "tuple":
            cur = atom(self.load(lens.par, pre))
            pair = "(%s, snd %s)" % (new, cur) if lens.a == "fst" else "(fst %s, %s)" % (cur, new)
            return self.store(pre, lens.par, pair, env)
        if lens.kind == "slice":
            old = atom(self.load(lens.par, pre))
            return self.store(pre, lens.par, "firstn %s %s ++ %s ++ skipn %s %s" % (atom(lens.a), old, atom(new), atom(lens.b), old), env)
        return super().store(pre, lens, new, env)

    # -- expressions
    def expr(self, e, env, pre, stmt=False):
        k = e[0]
        if k == "num":
            return str(e[1]), "int"
        if k == "char":
            return "%d§N" % e[1], "char"
        if k == "succ":
            g, t = self.expr(e[1], env, pre)
            self.unify(t, "nat", "..=")
            return "S %s" % atom(g), "nat"
        if k == "neg":
            g, t = self.expr(e[1], env, pre)
            if t != "isize":
                self.err("unsupported: unary minus at type %s" % (t,))
            return "Z.opp %s" % atom(g), "isize"
        if k == "cast":
            return self.cast(e, env, pre)
        if k == "path" and len(e[1]) == 1 and e[1][0] in CONSTS:
            return e[1][0], CONSTS[e[1][0]][2]
        if k == "tuple" and not e[1]:
            return "tt", "unit"
        return super().expr(e, env, pre, stmt)

    def cast(self, e, env, pre):
        g, t = self.expr(e[1], env, pre)
        to = e[2]
        g = atom(g)
        if t == "int":
            t = to
            if to in NTY or to == "isize":
                g = "%s§%s" % (g, cty(to))                       # `§` stands for the scope delimiter `%` (see gen_restfns)
        if t == to:
            return g, to
        if t in NTY and to in NTY and to != "char":
            if NTY[t] <= NTY[to]:
                return g, to                                      # widening
            return "N.modulo %s %d" % (g, NTY[to]), to            # truncation
        if t in NTY and to == "nat":
            return "N.to_nat %s" % g, "nat"
        if t == "nat" and to == "isize":
            return "Z.of_nat %s" % g, "isize"
        if t == "isize" and to == "nat":
            self.guard(pre, "Z.leb 0 %s" % g, "%s as usize" % g)
            return "Z.to_nat %s" % g, "nat"
        self.err("unsupported cast from %s to %s" % (t, to))

    def binop(self, e, env, pre):
        op = e[1]
        if op in ("&&", "||"):
            ga, ta = self.expr(e[2], env, pre)
            n_tmp = self.n_tmp
            try:
                gb, tb = self.expr(e[3], env, None)
                seq = None
            except TErr:
                if pre is None:
                    raise
                self.n_tmp = n_tmp
                seq = []
                gb, tb = self.expr(e[3], env, seq)
            if ta != "bool" or tb != "bool":
                self.err("`%s` on non-bool operands" % op)
            if seq is None:
                return "%s %s %s" % (atom(ga), op, atom(gb)), "bool"
            t = self.fresh()                                      # the right operand can panic: keep the short circuit
            self.put(pre, "%s <- (if %s then" % (t, ga if op == "&&" else "negb %s" % atom(ga)))
            pre.extend("  " + ln for ln in seq)
            self.put(pre, "  Ok %s" % atom(gb))
            self.put(pre, "else Ok %s) ;;" % ("false" if op == "&&" else "true"))
            return t, "bool"
        ga, ta = self.expr(e[2], env, pre)
        gb, tb = self.expr(e[3], env, pre)
        ty = self.unify(ta, tb, "`%s`" % op)
        ga, gb = atom(ga), atom(gb)
        sc = "N" if ty in NTY else "Z" if ty == "isize" else ""      # operators by name: no `%` in the emitted text
        if sc:
            ga, gb = ("%s§%s" % (ga, sc) if ta == "int" else ga), ("%s§%s" % (gb, sc) if tb == "int" else gb)
        elif ty == "int":
            ty = "nat"
        if op in ("==", "!=", "<", "<=", ">", ">="):
            if ty == "bool" and op in ("==", "!="):
                g = "Bool.eqb %s %s" % (ga, gb)
                return ("negb (%s)" % g if op == "!=" else g), "bool"
            if ty != "nat" and not sc:
                self.err("unsupported: comparison `%s` at type %s" % (op, ty))
            if op in (">", ">="):
                ga, gb, op = gb, ga, {">": "<", ">=": "<="}[op]
            if sc:
                g = "%s.%s %s %s" % (sc, {"==": "eqb", "!=": "eqb", "<": "ltb", "<=": "leb"}[op], ga, gb)
            else:
                g = {"==": "%s =? %s", "!=": "%s =? %s", "<": "%s <? %s", "<=": "%s <=? %s"}[op] % (ga, gb)
            return ("negb (%s)" % g if op == "!=" else g), "bool"
        if ty != "nat" and not sc:
            self.err("unsupported: arithmetic `%s` at type %s" % (op, ty))
        if op in ("+", "*"):
            return ("%s.%s %s %s" % (sc, {"+": "add", "*": "mul"}[op], ga, gb) if sc else "%s %s %s" % (ga, op, gb)), ty
        if op == "-":
            if ty != "isize":
                self.guard(pre, "N.leb %s %s" % (gb, ga) if sc else "%s <=? %s" % (gb, ga), "%s - %s" % (ga, gb))
            return ("%s.sub %s %s" % (sc, ga, gb) if sc else "%s - %s" % (ga, gb)), ty
        if op in ("/", "%") and ty == "nat":
            if not (gb.isdigit() and int(gb) > 0):
                self.guard(pre, "negb (%s =? 0)" % gb, "division")
            return "%s %s %s" % (ga, "/" if op == "/" else "mod", gb), "nat"
        self.err("unsupported operator %s at type %s" % (op, ty))

    def call(self, e, env, pre):
        path, args = e[1], e[2]
        if path in (["Vec", "new"], ["String", "new"]) and not args:
            return "[]", ("list", "char" if path[0] == "String" else None)
        if path in (["mem", "take"], ["std", "mem", "take"]) and len(args) == 1 and args[0][0] == "ref" and args[0][2]:
            lens = self.place(args[0][1], env, pre)
            empty = "[]" if lens.ty[0] == "list" else "None" if lens.ty[0] == "option" else None
            if not isinstance(lens.ty, tuple) or empty is None:
                self.err("unsupported: mem::take of a value of type %s" % (lens.ty,))
            t = self.fresh()
            self.put(pre, "let %s := %s in" % (t, self.load(lens, pre)))
            self.store(pre, lens, empty, env)
            return t, lens.ty
        if len(path) == 1 and path[0] in ABSTRACT_FREE:
            _, ptys, rty = ABSTRACT_FREE[path[0]]
            if len(args) != len(ptys):
                self.err("call of %s with %d arguments" % (path[0], len(args)))
            gs = []
            for a, pty in zip(args, ptys):
                g, t = self.expr(a, env, pre)
                self.unify(t, pty, "argument of " + path[0])
                gs.append(atom(g))
            return self.abstract_call(path[0], ptys, rty, gs, pre), rty
        return super().call(e, env, pre)

    def abstract_call(self, name, ptys, rty, gs, pre):
        if pre is None:
            self.err("call of %s in a position where it cannot be sequenced" % name)
        self.callees["c_" + name] = " -> ".join([cty_a(t) for t in ptys] + ["res %s" % cty_a(rty)])
        t = self.fresh()
        self.put(pre, "%s <- c_%s %s ;;" % (t, name, " ".join(gs)))
        return t

    def user_call(self, f, recv_lens, args, env, pre):
        if getattr(f, "fuels", None):                            # a callee with loops is a parameter of the caller
            if f.selfk != "ref":
                self.err("unsupported: call of %s::%s (it has loops and is not a `&self` method)" % (f.tname, f.name))
            gs = [atom(self.load(recv_lens, pre))] + self.user_args(f, args, env, pre)
            return self.abstract_call(f.name, [SELF_TY[f.tname]] + [ty for _, ty in f.params], f.ret, gs, pre), f.ret
        return super().user_call(f, recv_lens, args, env, pre)

    def mcall(self, e, env, pre, stmt):
        recv, name, args = e[1], e[2], e[3]
        if name in ("to_owned", "to_string") and not args:
            g, ty = self.expr(recv, env, pre)
            if ty != STRING:
                self.err("unsupported: .%s() at type %s" % (name, ty))
            return g, ty
        if name == "trim_end" and not args:
            g, ty = self.expr(recv, env, pre)
            if ty != STRING:
                self.err("unsupported: .trim_end() at type %s" % (ty,))
            return "trim_end %s" % atom(g), STRING
        if name == "contains" and len(args) == 1 and recv[0] == "paren" and recv[1][0] == "range":
            glo, tlo = self.expr(recv[1][1], env, pre) if recv[1][1] is not None else (None, None)
            ghi, thi = self.expr(recv[1][2], env, pre) if recv[1][2] is not None else (None, None)
            gx, tx = self.expr(args[0], env, pre)
            if glo is None or ghi is None or recv[1][2][0] == "succ":
                self.err("unsupported: contains on an open / inclusive range")
            ty = self.unify(self.unify(tlo, thi, "range"), tx, "contains")
            if ty not in NTY:
                self.err("unsupported: contains at type %s" % (ty,))
            return "N.leb %s %s && N.ltb %s %s" % (atom(glo), atom(gx), atom(gx), atom(ghi)), "bool"
        if name == "take" and not args:                          # Option::take
            lens = self.place(recv, env, pre)
            if not (isinstance(lens.ty, tuple) and lens.ty[0] == "option"):
                self.err("unsupported: .take() on a value of type %s" % (lens.ty,))
            t = self.fresh()
            self.put(pre, "let %s := %s in" % (t, self.load(lens, pre)))
            self.store(pre, lens, "None", env)
            return t, lens.ty
        if name == "next" and not args:                          # Iterator::next on an iterator held as the list of its items
            lens = self.place(recv, env, pre)
            if not (isinstance(lens.ty, tuple) and lens.ty[0] == "list") or lens.kind not in ("var", "field"):
                self.err("unsupported: .next() on a value of type %s" % (lens.ty,))
            t = self.fresh()
            self.put(pre, "let %s := hd_error %s in" % (t, atom(self.load(lens, pre))))
            self.store(pre, lens, "tl %s" % atom(self.load(lens, pre)), env)
            return t, ("option", lens.ty[1])
        if name == "or_else" and len(args) == 1 and args[0][0] == "closure" and not args[0][1] and args[0][2][0] != "blockexpr":
            ga, ta = self.expr(recv, env, pre)
            self.muts.append(set())
            seq = []
            gb, tb = self.expr(args[0][2], env, seq)
            m = self.muts.pop()
            names = [n for n in env if n in m]
            for s in self.muts:
                s.update(names)
            ty = self.unify(ta, tb, "or_else")
            if not (isinstance(ty, tuple) and ty[0] == "option"):
                self.err("unsupported: .or_else at type %s" % (ty,))
            tup, _, _ = self.state(env, names)
            t = self.fresh()
            self.put(pre, "'(%s, %s) <- (match %s with" % (tup, t, ga))
            self.put(pre, "  | Some x => Ok (%s, Some x)" % tup)
            self.put(pre, "  | None =>")
            pre.extend("    " + ln for ln in seq)
            self.put(pre, "    Ok (%s, %s)" % (tup, gb))
            self.put(pre, "  end) ;;")
            return t, ty
        if name == "map" and len(args) == 1 and args[0][0] == "closure" and args[0][2][0] == "blockexpr" \
                and len(args[0][1]) == 1 and args[0][1][0][0] == "pvar":
            g, ty = self.expr(recv, env, pre)
            x = args[0][1][0][1]
            if not (isinstance(ty, tuple) and ty[0] == "option") or x in env:
                self.err("unsupported: .map(|%s| {..}) on a value of type %s" % (x, ty))
            env2 = dict(env)
            env2[x] = Var("v_" + x, ty[1])
            rty = []
            self.muts.append(set())
            body = self.block(args[0][2][1], env2, lambda e3, v: rty.append(v[1]) or ["Ok (Some %s)" % atom(v[0])], unit=False)
            if [n for n in env if n in self.muts.pop()]:
                self.err("unsupported: Option::map closure that assigns captured locals")
            t = self.fresh()
            self.put(pre, "%s <- (match %s with" % (t, g))
            self.put(pre, "  | Some v_%s =>" % x)
            pre.extend("    " + ln for ln in body)
            self.put(pre, "  | None => Ok None")
            self.put(pre, "  end) ;;")
            return t, ("option", rty[0])
        if name == "collect" and not args and recv[0] == "struct" and recv[1] == "Reflow":
            g, ty = self.expr(recv, env, pre)
            f = self.tr.need("Reflow", "next")
            self.fuels.append("fuel")
            t = self.fresh()
            self.put(pre, "%s <- %s_collect fuel %s [] ;;" % (t, f.gname[:-len("_next")], atom(g)))
            return t, ("list", f.ret[1])
        if name in B.ITER_METHODS + ("min", "max", "clone", "unwrap_or", "map") or self.is_iter_chain(recv):
            if not (name == "iter" and not self.is_iter_chain(recv)):
                return super().mcall(e, env, pre, stmt)
        lens = self.place(recv, env, pre)
        ty = lens.ty
        if ty == "line" and name == "text" and not args:
            return "line_text %s" % atom(self.load(lens, pre)), STRING
        if ty == "line" and name == "len" and not args:
            return "length (cells %s)" % atom(self.load(lens, pre)), "nat"
        if isinstance(ty, str) and ty in STRUCT_TY and ty != "limit" and lens.kind in ("var", "field", "elem"):
            f = self.tr.need(STRUCT_TY[ty], name)
            if f.selfk is None:
                self.err("%s::%s called as a method" % (f.tname, f.name))
            if f.selfk == "mut" and lens.root() == "self" and self.f.selfk != "mut":
                self.err("`&mut self` method called without `&mut self`")
            if f.selfk == "val":
                if args:
                    self.err("unsupported: by-value method with arguments")
                t = self.fresh()
                self.put(pre, "%s <- %s %s ;;" % (t, f.gname, atom(self.load(lens, pre))))
                return t, f.ret
            return self.user_call(f, lens, args, env, pre)
        if isinstance(ty, tuple) and ty[0] == "list":
            if name == "push_str" and len(args) == 1 and ty == STRING:
                g, t = self.expr(args[0], env, pre)
                self.unify(t, STRING, "push_str")
                self.store(pre, lens, "%s ++ %s" % (atom(self.load(lens, pre)), atom(g)), env)
                return "tt", "unit"
            if name in ("is_empty", "len") and not args and lens.kind in ("elem", "ro"):
                cur = atom(self.load(lens, pre))
                return ("length %s =? 0" % cur, "bool") if name == "is_empty" else ("length %s" % cur, "nat")
            if name == "drain" and args == [("range", None, None)] and lens.kind in ("var", "field"):
                t = self.fresh()
                self.put(pre, "let %s := %s in" % (t, self.load(lens, pre)))
                self.store(pre, lens, "[]", env)
                return t, ty
            if name == "extend" and len(args) == 1 and lens.kind in ("var", "field"):
                g, t = self.expr(args[0], env, pre)
                if isinstance(t, tuple) and t[0] == "option":
                    lens.ty = ("list", self.unify(ty[1], t[1], "Vec::extend"))
                    self.store(pre, lens, "%s ++ opt_list %s" % (atom(self.load(lens, pre)), atom(g)), env)
                    return "tt", "unit"
                self.unify(t, ty, "Vec::extend")
                self.store(pre, lens, "%s ++ %s" % (atom(self.load(lens, pre)), atom(g)), env)
                return "tt", "unit"
            if name in ("fill", "push") and len(args) == 1 and args[0][0] == "num" and ty[1] in NTY:
                args = [("cast", args[0], ty[1])]
            return self.list_method(lens, name, args, env, pre, stmt)
        self.err("unsupported method call .%s(..) on a value of type %s" % (name, ty))

    def iter_method(self, g, ty, name, args, env, pre):
        if name == "filter_map" and len(args) == 1 and isinstance(ty, tuple) and ty[0] == "list" \
                and args[0][0] == "closure" and len(args[0][1]) == 1 and args[0][1][0][0] == "pvar":
            n_tmp = self.n_tmp
            try:
                return super().iter_method(g, ty, name, args, env, pre)
            except TErr:
                if pre is None:
                    raise
            # the closure assigns captured locals: thread them through filter_mapM
            self.n_tmp = n_tmp
            x, body = args[0][1][0][1], args[0][2]
            if x in env or body[0] == "blockexpr":
                self.err("unsupported closure (block body / shadowing parameter)")
            env2 = dict(env)
            env2[x] = Var("v_" + x, ty[1])
            self.muts.append(set())
            seq = []
            gv, tv = self.expr(body, env2, seq)
            m = self.muts.pop()
            names = [n for n in env if n in m]
            for s in self.muts:
                s.update(names)
            if not (isinstance(tv, tuple) and tv[0] == "option") or x in m:
                self.err("filter_map closure of type %s" % (tv,))
            tup, binder, _ = self.state(env, names)
            t = self.fresh()
            self.put(pre, "'(%s, %s) <- filter_mapM (fun %s v_%s =>" % (tup, t, binder, x))
            pre.extend("  " + ln for ln in seq)
            self.put(pre, "  Ok (%s, %s)) %s %s ;;" % (tup, gv, atom(g), tup))
            return t, ("list", tv[1])
        return super().iter_method(g, ty, name, args, env, pre)


# ------------------------------------------------------------------------------ driver

class RTr(B.Tr):
    def __init__(self, srcs):
        super().__init__(srcs)
        self.site = 200
        self.extern = {(t, f) for _, t, f in B.ROOTS}      # regenerated in Gen/BufFns.v

    def parse_fn(self, toks, fs, bo, bc, tname):
        where = "%s::%s" % (tname, toks[fs + 1][1])
        p = RParser(toks[fs:bo], where + " signature")
        p.eat("fn")
        name = p.eat(kind="id")
        if p.at("<"):
            p.err("unsupported: generic function")
        p.eat("(")
        selfk, params = None, []
        if p.at("&"):
            p.eat()
            selfk = "ref"
            if p.at("mut"):
                p.eat()
                selfk = "mut"
            p.eat("self")
        elif p.at("self"):
            p.eat()
            selfk = "val"
        elif p.at("mut") and p.at("self", 1):
            p.err("unsupported: `mut self`")
        if selfk and not p.at(")"):
            p.eat(",")
        while not p.at(")"):
            pt = p.pat()
            p.eat(":")
            params.append((pt, p.ty("reflow-generic" if (tname, name) == ("Reflow", "reflow") else SELF_TY[tname])))
            if not p.at(")"):
                p.eat(",")
        p.eat(")")
        ret = None
        if p.at("->"):
            p.eat()
            ret = p.ty(SELF_TY[tname])
        if p.i != len(p.t):
            p.err("unsupported signature tail")
        b = RParser(toks[bo:bc + 1], where)
        body = b.block()
        if b.i != len(b.t):
            b.err("trailing tokens after the body")
        return B.Fn(tname, name, selfk, params, ret, body)

    def need(self, tname, name):
        key = (tname, name)
        if key not in self.fns:
            if key in self.busy:
                raise TErr("recursion through %s::%s" % key)
            if tname not in FILE_OF:
                raise TErr("no source file for type %s" % tname)
            try:
                if tname == "Reflow":                  # `impl Iterator for Reflow<I>` and the free function `reflow`
                    toks = self.srcs["buffer"]
                    lo, hi = find_impl(toks, REFLOW_IMPL) if name == "next" else (0, len(toks))
                else:
                    toks, (lo, hi) = self.impl_range(tname)
                fs, bo, bc = find_fn(toks, name, lo, hi)
            except Exception as e:
                raise TErr("function %s::%s not found (%s)" % (tname, name, e))
            if key in self.extern:                     # regenerated in Gen/BufFns.v: only the signature is needed
                f = B.Tr.parse_fn(self, toks, fs, bo, bc, tname)
                f.fuels = []
                self.fns[key] = f
                return f
            if key == ("Reflow", "reflow"):            # strip the generic parameter list (checked in check_sources)
                k = next(i for i in range(fs, bo) if toks[i] == ("punct", "("))
                f = self.parse_fn(toks[:fs] + toks[fs:fs + 2] + toks[k:], fs, bo - (k - fs - 2), bc - (k - fs - 2), tname)
            else:
                f = self.parse_fn(toks, fs, bo, bc, tname)
            self.busy.append(key)
            self.site += 1
            ft = RFnTr(self, f, self.site)
            d = ft.emit_collect() if key == ("Reflow", "next") else ft.emit()
            self.busy.pop()
            self.out.append((f.gname, d))
            self.fns[key] = f
        return self.fns[key]


def check_sources(srcs):
    for sname, fkey in STRUCT_FILE.items():
        got = B.struct_decl(srcs[fkey], sname)
        want = [(f, t) for f, t, _, _ in STRUCTS[sname][1]]
        if got != want:
            raise TErr("struct %s: fields %s (expected %s)" % (sname, got, want))
    btxt = text(srcs["buffer"])
    if REFLOW_DECL not in btxt or "impl " + " ".join(REFLOW_IMPL) + " { type Item = Line ;" not in btxt:
        raise TErr("buffer.rs: unexpected declaration of struct Reflow / impl Iterator for Reflow")
    for a in ALIASES:
        if a not in btxt:
            raise TErr("buffer.rs: `%s` not found" % a)
    if "fn reflow" in btxt and ABSTRACT_FREE["reflow"][0] + " {" not in btxt:
        raise TErr("buffer.rs: unexpected signature of fn reflow")
    for ty, (ename, ctors) in ENUMS.items():
        toks = srcs[FILE_OF[ename]]
        for i in range(len(toks) - 2):
            if toks[i] == ("id", "enum") and toks[i + 1] == ("id", ename):
                got = text(toks[i + 3:B.match_close(toks, i + 2)])
                if got != " , ".join(ctors) + " ,":
                    raise TErr("enum %s: %s" % (ename, got))
                break
        else:
            raise TErr("enum %s not found" % ename)
    for cname, (fkey, rty, _) in CONSTS.items():
        if "const %s : %s =" % (cname, rty) not in text(srcs[fkey]):
            raise TErr("const %s : %s not found in %s.rs" % (cname, rty, fkey))
    for fkey, tname, fn, want in EXTERN_CHECKS:
        t = srcs[fkey]
        lo, hi = find_impl(t, tname.split())
        _, bo, bc = find_fn(t, fn, lo, hi)
        if text(t[bo + 1:bc]) != want:
            raise TErr("%s::%s: unexpected body %s" % (tname, fn, text(t[bo + 1:bc])))


PRELUDE = """From Coq Require Import List Arith NArith ZArith Bool.
From Avt Require Import Model.Dump Gen.BufFns.
Import ListNotations.
Local Open Scope bool_scope.
Local Open Scope nat_scope.

(** Uses of the model: the records [param], [parser], [line], [buffer], [vt] (Model/Types.v), the list primitives
    and the panic monad (Model/Base.v), the constants [PARAMS_LEN], [SPECIAL_GFX_CHARS] of Gen/Consts.v
    (regenerated from the same source; the declared types are checked), the functions of Gen/BufFns.v, and from
    Model/Dump.v only [trim_end] (std [str::trim_end], by its contract) and [line_text] ([Line::text] =
    [self.chars().collect()], [chars] = [self.cells.iter().map(Cell::char)], [Cell::char] = [self.0]: bodies
    checked).  [Vt::lines] is [lines (buf (vterm v))] ([Vt::lines] / [Terminal::lines] / [Buffer::lines]: bodies
    checked).  A [TextUnwrapper] is its only field, a [TextCollector] the pair (vt, unwrapper). *)

(** [for x in &mut v { .. }] *)
Fixpoint mapM {A B} (f : A -> res B) (l : list A) : res (list B) :=
  match l with
  | [] => Ok []
  | x :: r => y <- f x ;; ys <- mapM f r ;; Ok (y :: ys)
  end.

(** [for x in v { .. }] with the assigned locals as the state *)
Fixpoint foldM {S A} (f : S -> A -> res S) (l : list A) (s : S) : res S :=
  match l with
  | [] => Ok s
  | x :: r => s' <- f s x ;; foldM f r s'
  end.

(** [v.iter().filter_map(|x| ..).collect()] with a closure that assigns captured locals *)
Fixpoint filter_mapM {S A B} (f : S -> A -> res (S * option B)) (l : list A) (s : S) : res (S * list B) :=
  match l with
  | [] => Ok (s, [])
  | x :: r =>
    '(s', o) <- f s x ;;
    '(s'', out) <- filter_mapM f r s' ;;
    Ok (s'', match o with Some y => y :: out | None => out end)
  end.

(** [struct Reflow<I>]: the iterator [iter] is the list of the lines it will yield *)
Record reflow_st := mkReflow { r_iter : list line; r_cols : nat; r_rest : option line }.
#[export] Instance eta_reflow_st : Settable _ := settable! mkReflow <r_iter; r_cols; r_rest>.

(** [Vec::extend(option)] *)
Definition opt_list {A} (o : option A) : list A := match o with Some x => [x] | None => [] end.

"""


def gen_restfns(srcs, hdr):
    """srcs: {'parser','charset','util','buffer','line','cell','vt','terminal','tabs','dirty','pen'} -> tokens;
    returns (text of RestFns.v, [gallina names])"""
    try:
        with patched():
            check_sources(srcs)
            tr = RTr(srcs)
            for tname, fn in ROOTS:
                tr.need(tname, fn)
    except (AttributeError, TypeError, AssertionError, RecursionError) as e:      # never a silent success
        raise TErr("internal error of rest2coq (%s: %s)" % (type(e).__name__, e))
    v = hdr + PRELUDE
    defs = {n: d.replace("§", "%") for n, d in tr.out}      # buf2coq formats with `%`: literals carry `§` until here
    for title, tnames in SECTION:
        v += "(** * %s *)\n\n" % title
        for key, f in tr.fns.items():
            if key[0] in tnames and f.gname in defs:
                v += defs.pop(f.gname) + "\n"
    if defs:
        raise TErr("internal error of rest2coq: unplaced definitions %s" % sorted(defs))
    return v, [n for n, _ in tr.out]
