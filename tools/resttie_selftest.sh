#!/bin/bash
# Self-test of the ties of translate/rest2coq.py -> Gen/RestFns.v -> Proofs/ParserFnsTie.v, Proofs/RestTie.v.
# For the unmutated snapshot and for hand-made single-token mutations of a COPY of the sources placed under
# $MUT, run the translator into a scratch Gen dir, compile the scratch RestFns.v and then the two tie files
# against it.  To find ALL the tie theorems a mutant breaks (not only the first), the failing proof is replaced
# by `Admitted` IN THE SCRATCH COPY and the file is compiled again, until it goes through.
# Expected: the baseline compiles with no broken theorem; every semantic mutant breaks exactly the listed
# theorem(s); an untranslatable edit gives TRANSLATE-ERROR (exit 3: the unit fails alone; 2: fatal).  The cases run in parallel.
# usage: tools/resttie_selftest.sh        (needs the main tree built: coq/Proofs/BufTie.vo)
ROOT=$(cd "$(dirname "$0")/.." && pwd)
COQ=$ROOT/coq
MUT=${MUT:-/tmp/pw/tx/mut}
REPO_SRC=${REPO_SRC:-/tmp/pw/src0/src}
JOBS=${JOBS:-8}
mkdir -p "$MUT"

run_case() {  # name expected(ok|terr|"thm1 thm2 ..") file old new      (writes $MUT/name/report)
  local name=$1 expect=$2 file=$3 old=$4 new=$5 d=$MUT/$1
  rm -rf "$d"; mkdir -p "$d/gen" "$d/coq"
  cp -r "$REPO_SRC" "$d/src"
  {
  if [ -n "$old" ]; then
    python3 - "$d/src/$file" "$old" "$new" <<'PY' || { echo "[$name] MUTATION DID NOT APPLY"; echo "[$name] FAIL"; exit; }
import sys
p, old, new = sys.argv[1:4]
s = open(p, encoding="utf-8").read()
if s.count(old) != 1:
    sys.exit("pattern occurs %d times" % s.count(old))
open(p, "w", encoding="utf-8").write(s.replace(old, new))
PY
    diff "$REPO_SRC/$file" "$d/src/$file" | grep '^[<>]' | sed "s|^|[$name]   $file: |"
  fi
  local t0=$(date +%s) got
  python3 "$ROOT/translate/avt2coq.py" "$d/src" "$d/gen" > "$d/translate.log" 2>&1
  if [ $? -ne 0 ]; then
    got=terr; sed "s/^/[$name]   /" "$d/translate.log"
  else
    # the scratch RestFns.v under its own logical name, the tie files against it
    cp "$d/gen/RestFns.v" "$d/coq/RestFns.v"
    for f in ParserFnsTie RestTie; do
      sed 's/^From Avt Require Import Gen.RestFns\.$/From AvtMut Require Import RestFns./' "$COQ/Proofs/$f.v" > "$d/coq/$f.v"
      grep -q "From AvtMut Require Import RestFns" "$d/coq/$f.v" || { echo "[$name] cannot redirect the import of $f.v"; echo "[$name] FAIL"; exit; }
    done
    got=$(cd "$d/coq" && COQDIR="$COQ" python3 - <<'PY'
import os, re, subprocess
coqc = ["timeout", "900", "coqc", "-w", "-notation-overridden,-ambiguous-paths", "-Q", os.environ["COQDIR"], "Avt", "-Q", ".", "AvtMut"]
broken = []
r = subprocess.run(coqc + ["RestFns.v"], capture_output=True, text=True)
if r.returncode != 0:
    open("fns.log", "w").write(r.stdout + r.stderr)
    print("RestFns.v-does-not-compile")
    raise SystemExit
for f in ("ParserFnsTie.v", "RestTie.v"):
    for _ in range(12):
        r = subprocess.run(coqc + [f], capture_output=True, text=True)
        open(f + ".log", "w").write(r.stdout + r.stderr)
        if r.returncode == 0:
            break
        m = re.search(r'File "\./%s", line (\d+)' % re.escape(f), r.stderr)
        if not m:
            broken.append("%s:unlocated-error" % f)
            break
        lines = open(f).read().split("\n")
        ln = int(m.group(1)) - 1
        start = max(i for i in range(ln + 1) if re.match(r"(Theorem|Lemma|Example) ", lines[i]))
        thm = lines[start].split()[1]
        broken.append(thm)
        p0 = next(i for i in range(start, len(lines)) if lines[i].startswith("Proof."))
        q0 = next(i for i in range(p0, len(lines)) if lines[i].rstrip().endswith("Qed."))
        lines[p0:q0 + 1] = ["Proof. Admitted. (* broken on this mutant; scratch copy only *)"]
        open(f, "w").write("\n".join(lines))
    else:
        broken.append("%s:too-many" % f)
print(" ".join(broken) if broken else "ok")
PY
)
    if [ "$got" = ok ]; then
      echo "[$name]   ParserFnsTie.v, RestTie.v compile ($(cat "$d"/coq/*Tie.v.log | grep -c 'Closed under the global context') theorems closed under the global context)"
    else
      echo "[$name]   broken tie theorems: $got"
    fi
  fi
  local verdict=PASS
  [ "$got" = "$expect" ] || verdict=FAIL
  echo "[$name] expected=[$expect] got=[$got]  ($(( $(date +%s) - t0 ))s)  $verdict"
  } > "$d/report" 2>&1
}

CASES=()
case_() { CASES+=("$1"); while [ "$(jobs -rp | wc -l)" -ge "$JOBS" ]; do sleep 0.5; done; run_case "$@" & }

case_ baseline ok "" "" ""
case_ m01_param_saturation "tie_parser_param" parser.rs \
  'self.cur_param = PARAMS_LEN - 1;' 'self.cur_param = PARAMS_LEN;'
case_ m02_add_part_cap "tie_param_add_part" parser.rs \
  '(self.cur_part + 1).min(5)' '(self.cur_part + 1).min(6)'
case_ m03_param_clear_range "tie_param_clear" parser.rs \
  'self.parts[..=self.cur_part].fill(0);' 'self.parts[..self.cur_part].fill(0);'
case_ m04_parser_clear_range "tie_parser_clear" parser.rs \
  'for p in &mut self.params[..=self.cur_param] {' 'for p in &mut self.params[..self.cur_param] {'
case_ m05_add_digit_base "tie_param_add_digit" parser.rs \
  '(10 * (*number as u32) + (input as u32)) as u16' '(16 * (*number as u32) + (input as u32)) as u16'
case_ m06_param_digit_offset "tie_parser_param" parser.rs \
  'add_digit((input as u8) - 0x30)' 'add_digit((input as u8) - 0x31)'
case_ m07_param_parts_range "tie_param_parts" parser.rs \
  '&self.parts[..=self.cur_part]' '&self.parts[..self.cur_part]'
case_ m08_gfx_index "tie_charset_translate" charset.rs \
  'SPECIAL_GFX_CHARS[(input as usize) - 0x60]' 'SPECIAL_GFX_CHARS[(input as usize) - 0x5f]'
case_ m09_gfx_range "tie_charset_translate" charset.rs \
  "('\\x60'..'\\x7f').contains(&input)" "('\\x60'..'\\x7e').contains(&input)"
case_ m10_text_no_trim "tie_buffer_text" buffer.rs \
  'text.push(current.trim_end().to_owned());
                current.clear();' 'text.push(current.to_owned());
                current.clear();'
case_ m11_unwrapper_no_trim "tie_unwrapper_push" util.rs \
  'self.wrapped_line.push_str(line.text().trim_end());' 'self.wrapped_line.push_str(&line.text());'
case_ m12_collector_strip "tie_collector_flush_loop" util.rs \
  'while !lines.is_empty() && lines[lines.len() - 1].is_empty() {' 'while !lines.is_empty() && !lines[lines.len() - 1].is_empty() {'
case_ m13_logpos_offset "tie_buffer_logical_position" buffer.rs \
  'log_col_offset += cols;' 'log_col_offset += 1;'
case_ m14_relpos_loop1_bound "tie_relpos_loop1" buffer.rs \
  'while r < pos.1 && rel_row < last_row {' 'while r < pos.1 && rel_row <= last_row {'
case_ m15_relpos_loop2_bound "tie_relpos_loop2" buffer.rs \
  'while rel_col >= cols && self.lines[rel_row].wrapped {' 'while rel_col > cols && self.lines[rel_row].wrapped {'
case_ m16_relpos_clamp "tie_buffer_relative_position" buffer.rs \
  'rel_col = rel_col.min(cols - 1);' 'rel_col = rel_col.min(cols);'
case_ m17_resize_inverted_row "tie_buffer_resize_gen" buffer.rs \
  'let inverted_cursor_row = old_rows - 1 - cursor.1;' 'let inverted_cursor_row = old_rows - cursor.1;'
case_ m18_resize_row_shift "tie_buffer_resize_gen" buffer.rs \
  'cursor.1 += cursor_row_shift;' 'cursor.1 += height_delta;'
case_ m19_resize_cmp_swapped "tie_buffer_resize_gen" buffer.rs \
  'match new_rows.cmp(&old_rows) {' 'match old_rows.cmp(&new_rows) {'
case_ m20_reflow_cmp_swapped "tie_reflow_collect" buffer.rs \
  'match self.cols.cmp(&line.len()) {' 'match line.len().cmp(&self.cols) {'
case_ m21_reflow_contract_len "tie_reflow_collect" buffer.rs \
  'self.rest = line.contract(self.cols);' 'self.rest = line.contract(self.cols + 1);'
case_ m22_reflow_or_else_dropped "tie_reflow_collect" buffer.rs \
  'self.rest.take().or_else(|| self.iter.next())' 'self.iter.next().or_else(|| self.rest.take())'
case_ m23_reflow_assert "tie_reflow" buffer.rs \
  'assert!(lines.iter().all(|l| l.len() == cols));' 'assert!(lines.iter().all(|l| l.len() <= cols));'
case_ m24_resize_reflow_cols "tie_buffer_resize_gen" buffer.rs \
  'self.lines = reflow(self.lines.drain(..), new_cols);' 'self.lines = reflow(self.lines.drain(..), old_cols);'
case_ t1_untranslatable terr buffer.rs \
  'rel_col = rel_col.min(cols - 1);' 'rel_col = rel_col.clamp(0, cols - 1);'
wait

fail=0
for c in "${CASES[@]}"; do
  cat "$MUT/$c/report"
  grep -q "PASS$" "$MUT/$c/report" || fail=1
done
echo
[ $fail -eq 0 ] && echo "resttie self-test: ALL AS EXPECTED" || echo "resttie self-test: UNEXPECTED RESULTS"
exit $fail
