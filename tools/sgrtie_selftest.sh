#!/bin/bash
# Self-test of the SGR / Pen / Vt ties (translate/misc2coq.py -> Gen/SgrFns.v, Gen/VtFns.v ->
# Proofs/SgrTie.v, Proofs/VtTie.v).
# For the unmutated snapshot and for hand-made small mutations of a COPY of the Rust sources placed
# under $MUT: run the translator into a scratch Gen dir, compile the scratch SgrFns.v / VtFns.v under
# the logical name AvtMut and the two tie files against them.  When a tie lemma fails, its proof is
# replaced by an admission IN THE SCRATCH COPY ONLY and the file is compiled again, so that the exact
# set of broken lemmas is found (not just the first one).
# Expected: the baseline and the equivalent mutant compile; every semantic mutant breaks exactly the
# listed lemmas; an edit outside the translated fragment gives TRANSLATE-ERROR (exit 3: the unit fails alone; 2: fatal).
# usage: tools/sgrtie_selftest.sh     (needs the main tree built: coq/Proofs/Sgr.vo, coq/Model/Vt.vo)
ROOT=$(cd "$(dirname "$0")/.." && pwd)
COQ=$ROOT/coq
MUT=${MUT:-/tmp/pw/ts/mut}
REPO_SRC=${REPO_SRC:-/tmp/pw/src0/src}
COQFLAGS="-w -notation-overridden,-ambiguous-paths"
mkdir -p "$MUT"
fail=0

# compile $1 (a scratch tie file); on a failing lemma admit it in the scratch copy and retry.
# prints the names of the broken lemmas, one per line
broken_lemmas() {
  local f=$1 n=0
  while [ $n -lt 12 ]; do
    n=$((n + 1))
    if timeout 900 coqc $COQFLAGS -Q "$COQ" Avt -Q . AvtMut "$f" > "${f%.v}.log" 2>&1; then return 0; fi
    python3 - "$f" "${f%.v}.log" <<'PY' || return 1
import re, sys
f, log = sys.argv[1:3]
src = open(f, encoding="utf-8").read()
m = re.search(r'line (\d+), characters', open(log, encoding="utf-8").read())
if not m:
    print("?no-error-location"); sys.exit(1)
line = int(m.group(1))
off = sum(len(l) + 1 for l in src.split("\n")[:line - 1])
heads = [h for h in re.finditer(r'^(Lemma|Theorem|Corollary) (\w+)', src, re.M) if h.start() <= off]
if not heads:
    print("?error-before-the-first-lemma(line %d)" % line); sys.exit(1)
h = heads[-1]
p = re.compile(r'\bProof\..*?\bQed\.', re.S).search(src, h.start())
if not p or off < p.start():
    print("%s(statement)" % h.group(2)); sys.exit(1)
print(h.group(2))
open(f, "w", encoding="utf-8").write(src[:p.start()] + "Ad" + "mitted." + src[p.end():])
PY
  done
  return 1
}

run_case() {  # name expected(ok | terr | lemma[,lemma..]) file old new
  local name=$1 expect=$2 file=$3 old=$4 new=$5 d=$MUT/$1
  rm -rf "$d"; mkdir -p "$d/gen" "$d/coq"
  cp -r "$REPO_SRC" "$d/src"
  if [ -n "$file" ]; then
    python3 - "$d/src/$file" "$old" "$new" <<'PY' || { echo "[$name] MUTATION DID NOT APPLY"; fail=1; return; }
import sys
p, old, new = sys.argv[1:4]
s = open(p, encoding="utf-8").read()
if s.count(old) != 1:
    sys.exit("pattern occurs %d times" % s.count(old))
open(p, "w", encoding="utf-8").write(s.replace(old, new))
PY
    diff "$REPO_SRC/$file" "$d/src/$file" | grep '^[<>]' | sed "s/^/[$name]   $file: /"
  fi
  local t0=$(date +%s) got
  if ! python3 "$ROOT/translate/avt2coq.py" "$d/src" "$d/gen" > "$d/translate.log" 2>&1; then
    got=terr; sed "s/^/[$name]   /" "$d/translate.log"
  else
    cp "$d/gen/SgrFns.v" "$d/gen/VtFns.v" "$d/coq/"
    sed 's/^\(From Avt Require Import .*\) Gen\.SgrFns\(.*\)$/\1\2 From AvtMut Require Import SgrFns./' "$COQ/Proofs/SgrTie.v" > "$d/coq/SgrTie.v"
    sed 's/^\(From Avt Require Import .*\) Gen\.VtFns\(.*\)$/\1\2 From AvtMut Require Import VtFns./' "$COQ/Proofs/VtTie.v" > "$d/coq/VtTie.v"
    grep -q "From AvtMut Require Import SgrFns" "$d/coq/SgrTie.v" && grep -q "From AvtMut Require Import VtFns" "$d/coq/VtTie.v" \
      || { echo "[$name] cannot redirect the imports"; fail=1; return; }
    got=$( cd "$d/coq" && {
      timeout 300 coqc $COQFLAGS -Q "$COQ" Avt -Q . AvtMut SgrFns.v > SgrFns.log 2>&1 || echo "SgrFns.v(does-not-compile)"
      timeout 300 coqc $COQFLAGS -Q "$COQ" Avt -Q . AvtMut VtFns.v > VtFns.log 2>&1 || echo "VtFns.v(does-not-compile)"
      [ -f SgrFns.vo ] && broken_lemmas SgrTie.v
      [ -f VtFns.vo ] && broken_lemmas VtTie.v
    } | sort | paste -sd, - )
    if [ -z "$got" ]; then
      got=ok
      echo "[$name]   SgrTie.v + VtTie.v compile ($(cat "$d/coq/SgrTie.log" "$d/coq/VtTie.log" | grep -c 'Closed under the global context') theorems closed under the global context)"
    else
      echo "[$name]   broken tie lemmas: $got"
    fi
  fi
  local want=$(echo "$expect" | tr ',' '\n' | sort | paste -sd, -)
  local verdict=PASS
  [ "$got" = "$want" ] || { verdict=FAIL; fail=1; }
  echo "[$name] expected=$want got=$got  ($(( $(date +%s) - t0 ))s)  $verdict"
}

run_case baseline ok "" "" ""

# ---- A. SgrOps::next (parser.rs)
run_case a1_48_5_consumes_2 tie_sgr_step parser.rs \
  'self.ps = &self.ps[3..];

                            return Some(SetBackgroundColor(color));' \
  'self.ps = &self.ps[2..];

                            return Some(SetBackgroundColor(color));'
run_case a2_bright_fg_no_plus8 tie_sgr_step parser.rs \
  'Color::Indexed((param - 90 + 8) as u8)' 'Color::Indexed((param - 90) as u8)'
run_case a3_rgb_g_b_swapped tie_sgr_step parser.rs \
  'SetForegroundColor(Color::rgb(*r as u8, *g as u8, *b as u8))' 'SetForegroundColor(Color::rgb(*r as u8, *b as u8, *g as u8))'
run_case a4_21_only tie_sgr_step parser.rs '[21] | [22] => {' '[21] => {'
run_case a5_fg_range_to_38 tie_sgr_step parser.rs '*param >= 30 && *param <= 37' '*param >= 30 && *param <= 38'
run_case a6_38_6_idx tie_sgr_step parser.rs '[38, 5, idx] => {' '[38, 6, idx] => {'
run_case a7_ext_rgb_needs_4 tie_sgr_step parser.rs \
  'if let Some(b) = self.ps.get(4) {
                            let r = self.ps.get(2).unwrap().as_u16();
                            let g = self.ps.get(3).unwrap().as_u16();
                            let b = b.as_u16();
                            let color = Color::rgb(r as u8, g as u8, b as u8);
                            self.ps = &self.ps[5..];

                            return Some(SetForegroundColor(color));' \
  'if let Some(b) = self.ps.get(3) {
                            let r = self.ps.get(2).unwrap().as_u16();
                            let g = self.ps.get(3).unwrap().as_u16();
                            let b = b.as_u16();
                            let color = Color::rgb(r as u8, g as u8, b as u8);
                            self.ps = &self.ps[4..];

                            return Some(SetForegroundColor(color));'
run_case a8_as_u16_second_part tie_as_u16,tie_sgr_step parser.rs \
  'pub fn as_u16(&self) -> u16 {
        self.parts[0]' \
  'pub fn as_u16(&self) -> u16 {
        self.parts[1]'
run_case e1_equivalent_wildcard ok parser.rs \
  'return Some(SetForegroundColor(color));
                        } else {
                            self.ps = &self.ps[2..];
                        }
                    }

                    Some(_) => {' \
  'return Some(SetForegroundColor(color));
                        } else {
                            self.ps = &self.ps[2..];
                        }
                    }

                    _ => {'
run_case t1_underflow terr parser.rs 'Color::Indexed((param - 30) as u8)' 'Color::Indexed((param - 31) as u8)'
run_case t2_slice_past_end terr parser.rs \
  'self.ps = &self.ps[5..];

                            return Some(SetBackgroundColor(color));' \
  'self.ps = &self.ps[6..];

                            return Some(SetBackgroundColor(color));'
run_case t3_rest_pattern terr parser.rs '[38, 5, idx] => {' '[38, 5, idx, ..] => {'

# ---- B. Terminal::sgr (terminal.rs), Pen (pen.rs)
run_case b1_italic_sets_underline tie_sgr_one terminal.rs \
  'SetItalic => {
                    self.pen.set_italic();' \
  'SetItalic => {
                    self.pen.set_underline();'
run_case b2_bold_is_faint tie_sgr_one terminal.rs \
  'SetBoldIntensity => {
                    self.pen.intensity = Intensity::Bold;' \
  'SetBoldIntensity => {
                    self.pen.intensity = Intensity::Faint;'
run_case b3_fg_sets_bg tie_sgr_one terminal.rs \
  'SetForegroundColor(color) => {
                    self.pen.foreground = Some(color);' \
  'SetForegroundColor(color) => {
                    self.pen.background = Some(color);'
run_case b4_set_italic_mask tie_set_italic,tie_sgr_one pen.rs \
  'pub fn set_italic(&mut self) {
        self.attrs |= ITALIC_MASK;' \
  'pub fn set_italic(&mut self) {
        self.attrs |= UNDERLINE_MASK;'
run_case b5_is_inverse_negated tie_is_inverse pen.rs '(self.attrs & INVERSE_MASK) != 0' '(self.attrs & INVERSE_MASK) == 0'
run_case b6_default_attrs tie_pen_default,tie_sgr_one pen.rs \
  'intensity: Intensity::Normal,
            attrs: 0,' \
  'intensity: Intensity::Normal,
            attrs: 1,'
run_case t4_unset_without_not terr pen.rs 'self.attrs &= !BLINK_MASK;' 'self.attrs &= BLINK_MASK;'

# ---- C. vt.rs, Terminal::changes / gc
run_case c1_gc_suppressed_on_primary tie_term_gc terminal.rs \
  'if self.active_buffer_type == BufferType::Alternate {
            return Box::new(std::iter::empty());' \
  'if self.active_buffer_type == BufferType::Primary {
            return Box::new(std::iter::empty());'
run_case c2_gc_alternate_too tie_term_gc terminal.rs \
  'if self.active_buffer_type == BufferType::Alternate {
            return Box::new(std::iter::empty());
        }
' ''
run_case c3_changes_clear_first tie_changes terminal.rs \
  'let changes = self.dirty_lines.to_vec();
        self.dirty_lines.clear();' \
  'self.dirty_lines.clear();
        let changes = self.dirty_lines.to_vec();'
run_case c4_changes_no_clear tie_changes terminal.rs \
  'let changes = self.dirty_lines.to_vec();
        self.dirty_lines.clear();' \
  'let changes = self.dirty_lines.to_vec();'
run_case c5_resize_gc_first tie_resize vt.rs \
  'self.terminal.resize(cols, rows);

        let lines = self.terminal.changes();
        let scrollback = self.terminal.gc();' \
  'let scrollback = self.terminal.gc();
        self.terminal.resize(cols, rows);

        let lines = self.terminal.changes();'
run_case t5_resize_args_swapped terr vt.rs 'self.terminal.resize(cols, rows);' 'self.terminal.resize(rows, cols);'
run_case t6_feed_str_lines_from_gc terr vt.rs \
  's.chars()
            .filter_map(|ch| self.parser.feed(ch))
            .for_each(|op| self.terminal.execute(op));

        let lines = self.terminal.changes();
        let scrollback = self.terminal.gc();

        Changes { lines, scrollback }' \
  's.chars()
            .filter_map(|ch| self.parser.feed(ch))
            .for_each(|op| self.terminal.execute(op));

        let lines = self.terminal.changes();
        let scrollback = self.terminal.gc();

        Changes { lines: scrollback, scrollback: lines }'
echo
[ $fail -eq 0 ] && echo "sgr/vt tie self-test: ALL AS EXPECTED" || echo "sgr/vt tie self-test: UNEXPECTED RESULTS"
exit $fail
