#!/usr/bin/env python3
"""Regenerate seeded/INDEX.md from the meta.json files."""
import json, os, re
R = os.path.join(os.path.dirname(os.path.dirname(os.path.abspath(__file__))), "seeded")
rows = []
for d in sorted(os.listdir(R)):
    mp = os.path.join(R, d, "meta.json")
    if not os.path.exists(mp):
        continue
    m = json.load(open(mp))
    patch = open(os.path.join(R, d, "patch.diff")).read()
    files = sorted(set(re.findall(r"^\+\+\+ b/(\S+)", patch, re.M)))
    what = ""
    for line in m.get("needs_to_manifest", "").splitlines():
        line = line.strip(" #*-")
        if len(line) > 40 and not line.lower().startswith(("property", "mutation", "c0", "c1", "c2")):
            what = line
            break
    rows.append((d, m["property"], ", ".join(files), ", ".join(m.get("detected_with_input_by", [])) or "-",
                 ", ".join(x for x in m.get("detected_by", []) if x not in m.get("detected_with_input_by", [])) or "-",
                 what[:160]))
with open(os.path.join(R, "INDEX.md"), "w") as f:
    f.write("# Seeded changes\n\nEach directory: `patch.diff` (apply with `git -C /repo apply`), `demo.rs` (fails with the change, passes without), "
            "`README.md` (the author's notes), `meta.json` (confirmation in a scratch worktree + which checks fired).\n\n"
            "| id | property | files | detected with a failing input by | tie broken only (no input) | what it needs |\n|---|---|---|---|---|---|\n")
    for r in rows:
        f.write("| %s | %s | %s | %s | %s | %s |\n" % r)
print(len(rows), "seeds")
