#!/bin/bash
# Self-test of the ties of translate/acc2coq.py -> Gen/AccFns.v -> Proofs/AccTie.v (public constructors and accessors).
# For the unmutated snapshot and for hand-made small mutations of a COPY of the sources placed under
# $MUT, run the translator into a scratch Gen dir, compile the scratch AccFns.v and then the tie file
# against it (everything else comes from the .vo files of the main tree).  To find ALL the tie theorems a mutant breaks (not only the first), the failing proof is replaced
# by `Admitted` IN THE SCRATCH COPY and the file is compiled again, until it goes through.
# (`Example`s - computed illustrations that mention the mutated function - are replaced too but listed separately.)
# Expected: the baseline compiles with no broken theorem; every semantic mutant breaks exactly the listed
# theorem(s); an untranslatable edit gives TRANSLATE-ERROR (exit 3: the unit fails alone; 2: fatal).  The cases run in parallel.
# usage: tools/acctie_selftest.sh        (needs the main tree built: coq/Proofs/DumpTie.vo, RestTie.vo)
ROOT=$(cd "$(dirname "$0")/.." && pwd)
COQ=$ROOT/coq
MUT=${MUT:-/tmp/pw/ta/mut}
REPO_SRC=${REPO_SRC:-/tmp/pw/src0/src}
JOBS=${JOBS:-8}
mkdir -p "$MUT"

run_case() {  # name expected(ok|terr|"thm1 thm2 ..") file old new      (writes $MUT/name/report)
  local name=$1 expect=$2 file=$3 old=$4 new=$5 d=$MUT/$1
  rm -rf "$d"; mkdir -p "$d/gen" "$d/coq"
  cp -r "$REPO_SRC" "$d/src"
  {
  if [ -n "$old" ]; then
    python3 - "$d/src/$file" "$old" "$new" <<'PY' || { echo "[$name] MUTATION DID NOT APPLY"; echo "[$name] FAIL"; exit; }
import sys
p, old, new = sys.argv[1:4]
s = open(p, encoding="utf-8").read()
if s.count(old) != 1:
    sys.exit("pattern occurs %d times" % s.count(old))
open(p, "w", encoding="utf-8").write(s.replace(old, new))
PY
    diff "$REPO_SRC/$file" "$d/src/$file" | grep '^[<>]' | sed "s|^|[$name]   $file: |"
  fi
  local t0=$(date +%s) got
  python3 "$ROOT/translate/avt2coq.py" "$d/src" "$d/gen" > "$d/translate.log" 2>&1
  if [ $? -ne 0 ]; then
    got=terr; sed "s/^/[$name]   /" "$d/translate.log"
  else
    # the scratch AccFns.v under its own logical name, the tie file against it
    cp "$d/gen/AccFns.v" "$d/coq/AccFns.v"
    for f in AccTie; do
      sed 's/^From Avt Require Import Gen.AccFns\.$/From AvtMut Require Import AccFns./' "$COQ/Proofs/$f.v" > "$d/coq/$f.v"
      grep -q "From AvtMut Require Import AccFns" "$d/coq/$f.v" || { echo "[$name] cannot redirect the import of $f.v"; echo "[$name] FAIL"; exit; }
    done
    got=$(cd "$d/coq" && COQDIR="$COQ" python3 - <<'PY'
import os, re, subprocess
coqc = ["timeout", "900", "coqc", "-w", "-notation-overridden,-ambiguous-paths", "-Q", os.environ["COQDIR"], "Avt", "-Q", ".", "AvtMut"]
broken, examples = [], []
r = subprocess.run(coqc + ["AccFns.v"], capture_output=True, text=True)
if r.returncode != 0:
    open("fns.log", "w").write(r.stdout + r.stderr)
    print("AccFns.v-does-not-compile")
    raise SystemExit
for f in ("AccTie.v",):
    for _ in range(12):
        r = subprocess.run(coqc + [f], capture_output=True, text=True)
        open(f + ".log", "w").write(r.stdout + r.stderr)
        if r.returncode == 0:
            break
        m = re.search(r'File "\./%s", line (\d+)' % re.escape(f), r.stderr)
        if not m:
            broken.append("%s:unlocated-error" % f)
            break
        lines = open(f).read().split("\n")
        ln = int(m.group(1)) - 1
        start = max(i for i in range(ln + 1) if re.match(r"(Theorem|Lemma|Example) ", lines[i]))
        thm = lines[start].split()[1]
        if lines[start].startswith("Example "):      # computed illustrations: affected, but not counted as a tie
            examples.append(thm)
        else:
            broken.append(thm)
        p0 = next(i for i in range(start, len(lines)) if lines[i].startswith("Proof."))
        q0 = next(i for i in range(p0, len(lines)) if lines[i].rstrip().endswith("Qed."))
        lines[p0:q0 + 1] = ["Proof. Admitted. (* broken on this mutant; scratch copy only *)"]
        open(f, "w").write("\n".join(lines))
    else:
        broken.append("%s:too-many" % f)
open("examples.log", "w").write(" ".join(examples))
print(" ".join(broken) if broken else "ok")
PY
)
    if [ "$got" = ok ]; then
      echo "[$name]   AccTie.v compiles ($(cat "$d"/coq/*Tie.v.log | grep -c 'Closed under the global context') theorems closed under the global context)"
    else
      echo "[$name]   broken tie theorems: $got   (computed examples affected: $(cat "$d/coq/examples.log" 2>/dev/null))"
    fi
  fi
  local verdict=PASS
  [ "$got" = "$expect" ] || verdict=FAIL
  echo "[$name] expected=[$expect] got=[$got]  ($(( $(date +%s) - t0 ))s)  $verdict"
  } > "$d/report" 2>&1
}

CASES=()
case_() { CASES+=("$1"); while [ "$(jobs -rp | wc -l)" -ge "$JOBS" ]; do sleep 0.5; done; run_case "$@" & }

case_ baseline ok "" "" ""
case_ m01_view_is_lines "tie_terminal_view" terminal.rs \
  'self.buffer.view()' 'self.buffer.lines()'
case_ m02_cursor_col_clamped "tie_terminal_cursor" terminal.rs \
  'pub fn cursor(&self) -> Cursor {
        self.cursor' 'pub fn cursor(&self) -> Cursor {
        Cursor { col: self.cursor.col.min(self.cols - 1), row: self.cursor.row, visible: self.cursor.visible }'
case_ m03_alt_buffer_limit "tie_terminal_new" terminal.rs \
  'let alternate_buffer = Buffer::new(cols, rows, Some(0), None);' 'let alternate_buffer = Buffer::new(cols, rows, scrollback_limit, None);'
case_ m04_new_no_autowrap "tie_terminal_new" terminal.rs \
  'origin_mode: false,
            auto_wrap_mode: true,
            new_line_mode: false,' 'origin_mode: false,
            auto_wrap_mode: false,
            new_line_mode: false,'
case_ m05_builder_default_size "tie_builder_default" vt.rs \
  'size: (80, 24),' 'size: (80, 25),'
case_ m06_cell_width_default "tie_cell_width" cell.rs \
  'self.0.width().unwrap_or(0)' 'self.0.width().unwrap_or(1)'
case_ m07_ckm_inverted "tie_terminal_cursor_keys_app_mode" terminal.rs \
  'pub fn cursor_keys_app_mode(&self) -> bool {
        self.cursor_keys_mode == CursorKeysMode::Application' 'pub fn cursor_keys_app_mode(&self) -> bool {
        self.cursor_keys_mode == CursorKeysMode::Normal'
case_ m08_size_swapped "tie_vt_size" vt.rs \
  '(self.terminal.cols, self.terminal.rows)' '(self.terminal.rows, self.terminal.cols)'
case_ m09_text_active_buffer "tie_terminal_text" terminal.rs \
  'self.primary_buffer().text()' 'self.buffer.text()'
case_ m10_vt_line_off_by_one "tie_vt_line" vt.rs \
  'self.terminal.line(n)' 'self.terminal.line(n + 1)'
case_ m11_line_is_empty "tie_line_is_empty" line.rs \
  'self.len() == 0' 'self.len() == 1'
case_ m12_collector_resize_swapped "tie_collector_resize" util.rs \
  '.resize(cols.into(), rows.into())' '.resize(rows.into(), cols.into())'
case_ m13_builder_limit "tie_builder_scrollback_limit" vt.rs \
  'self.scrollback_limit = Some(limit);' 'self.scrollback_limit = Some(limit + 1);'
case_ m14_build_drops_limit "tie_builder_build" vt.rs \
  'Terminal::new(self.size, self.scrollback_limit)' 'Terminal::new(self.size, None)'
case_ m15_vt_new_size "tie_vt_new" vt.rs \
  'Self::builder().size(cols, rows).build()' 'Self::builder().size(rows, cols).build()'
case_ m16_cursor_into_swapped "tie_cursor_option_from" terminal/cursor.rs \
  'Some((cursor.col, cursor.row))' 'Some((cursor.row, cursor.col))'
case_ m17_vt_view_is_lines "tie_vt_view" vt.rs \
  'self.terminal.view()' 'self.terminal.lines()'
case_ m18_param_new_slot "tie_param_new" parser.rs \
  'parts: [number, 0, 0, 0, 0, 0],' 'parts: [0, number, 0, 0, 0, 0],'
case_ m19_savedctx_default_origin "tie_savedctx_default" terminal.rs \
  'pen: Pen::default(),
            origin_mode: false,
            auto_wrap_mode: true,
        }' 'pen: Pen::default(),
            origin_mode: true,
            auto_wrap_mode: true,
        }'
case_ t3_cell_from_pinned terr cell.rs \
  'Self::new(value, Pen::default())' "Self::new(' ', Pen::default())"
case_ t1_line_text_pinned terr line.rs \
  'self.chars().collect()' 'self.chars().skip(1).collect()'
case_ t2_untranslatable terr vt.rs \
  '(self.terminal.cols, self.terminal.rows)' '(self.terminal.cols, self.terminal.rows.saturating_sub(0))'
wait

fail=0
for c in "${CASES[@]}"; do
  cat "$MUT/$c/report"
  grep -q "PASS$" "$MUT/$c/report" || fail=1
done
echo
[ $fail -eq 0 ] && echo "acctie self-test: ALL AS EXPECTED" || echo "acctie self-test: UNEXPECTED RESULTS"
exit $fail
