#!/bin/bash
# usage: try_seed.sh <patch.diff> <prop> [<prop> ...]   : apply to /repo, run the checks, undo
set -u
P=$1; shift
if [ -n "$(git -C /repo status --porcelain --untracked-files=no)" ]; then echo "/repo not clean"; exit 3; fi
# snapshot of the compiled development (mtimes preserved) so that the restored tree needs no recompilation afterwards
SNAP=$(mktemp -d /tmp/coqsnap.XXXXXX); rsync -a /verif/coq/ "$SNAP/"
git -C /repo apply "$P" || { rm -rf "$SNAP"; exit 4; }
trap 'git -C /repo checkout -- . ; rsync -a --delete "$SNAP/" /verif/coq/; rm -rf "$SNAP"' EXIT
for prop in "$@"; do
  out=$(cd /verif && ./check $prop 2>/dev/null | grep -E "^(VIOLATION|OK|KNOWN)" | grep -v KNOWN | head -2 | tr '\n' ' ')
  echo "$prop: $out"
done
# leave the generated tables and the harness in sync with the (restored) tree
git -C /repo checkout -- . ; trap - EXIT
rsync -a --delete "$SNAP/" /verif/coq/; rm -rf "$SNAP"
python3 /verif/translate/avt2coq.py /repo/src /verif/coq/Gen 2>&1 | grep -o "changed files.*"
