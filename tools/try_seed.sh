#!/bin/bash
# usage: try_seed.sh <patch.diff> <prop> [<prop> ...]   : apply to /repo, run the checks, undo
set -u
P=$1; shift
if [ -n "$(git -C /repo status --porcelain --untracked-files=no)" ]; then echo "/repo not clean"; exit 3; fi
git -C /repo apply "$P" || exit 4
trap 'git -C /repo checkout -- . ' EXIT
for prop in "$@"; do
  out=$(cd /verif && ./check $prop 2>/dev/null | grep -E "^(VIOLATION|OK|KNOWN)" | grep -v KNOWN | head -2 | tr '\n' ' ')
  echo "$prop: $out"
done
# leave the generated tables and the harness in sync with the (restored) tree
git -C /repo checkout -- . ; trap - EXIT
python3 /verif/translate/avt2coq.py /repo/src /verif/coq/Gen >/dev/null 2>&1
