#!/bin/bash
# usage: quick_mut.sh <patch.diff> <profile> [cases]   (developer tool: apply, trace, diff, revert)
set -u
P=$1; PROF=$2; N=${3:-300}
git -C /repo apply "$P" || exit 3
trap 'git -C /repo checkout -- . ' EXIT
(cd /verif/harness && cargo build --release --offline 2>&1 | grep -E "^error" )
/verif/.cache/cargo-target/release/avt-harness trace --seed 7 --cases $N --profile $PROF --queries --out /tmp/mt.txt 2>&1 | tail -1
/verif/driver/avt-driver /tmp/mt.txt > /tmp/md.txt
grep -c "^DIV" /tmp/md.txt
grep "^DIV" /tmp/md.txt | awk '{print $5, $6}' | sort | uniq -c | sort -rn | head -5
