#!/bin/bash
# Self-test of the terminal.rs tie (translate/term2coq.py -> Gen/TermFns.v -> Proofs/TermTie.v).
# For the unmutated source and for hand-made single-token mutations of a COPY of /repo/src placed
# under $MUT, run the translator into a scratch Gen dir and compile Proofs/TermTie.v against the
# scratch TermFns.v.  Expected: the baseline and the semantically equivalent mutant compile, every
# semantic mutant breaks a proof obligation, an untranslatable edit gives TRANSLATE-ERROR (exit 2).
# usage: tools/tie_selftest.sh        (needs the main tree built: coq/Proofs/TermEasy.vo)
ROOT=$(cd "$(dirname "$0")/.." && pwd)
COQ=$ROOT/coq
MUT=${MUT:-/tmp/pw/tr/mut}
REPO_SRC=${REPO_SRC:-/tmp/pw/src0/src}   # frozen copy of the sources (/repo/src is patched concurrently)
mkdir -p "$MUT"
fail=0

run_case() {  # name expected(ok|broken|terr) old new [w]    (w: also compile Proofs/TermTieW.v)
  local name=$1 expect=$2 old=$3 new=$4 withw=$5 d=$MUT/$1
  if [ -n "$CASES" ] && ! echo " $CASES " | grep -q " $name "; then return; fi   # CASES="a b c": run a subset
  rm -rf "$d"; mkdir -p "$d/gen" "$d/coq"
  cp -r "$REPO_SRC" "$d/src"
  if [ -n "$old" ]; then
    python3 - "$d/src/terminal.rs" "$old" "$new" <<'PY' || { echo "[$name] MUTATION DID NOT APPLY"; fail=1; return; }
import sys
p, old, new = sys.argv[1:4]
s = open(p, encoding="utf-8").read()
if s.count(old) != 1:
    sys.exit("pattern occurs %d times" % s.count(old))
open(p, "w", encoding="utf-8").write(s.replace(old, new))
PY
    diff <(cat "$REPO_SRC/terminal.rs") "$d/src/terminal.rs" | grep '^[<>]' | sed "s/^/[$name]   /"
  fi
  local t0=$(date +%s)
  python3 "$ROOT/translate/avt2coq.py" "$d/src" "$d/gen" > "$d/translate.log" 2>&1
  local code=$?
  local got
  if [ $code -ne 0 ]; then
    got=terr; sed "s/^/[$name]   /" "$d/translate.log"
  else
    # compile the scratch TermFns.v and the tie files (split into parallel leaves) under the logical name AvtMut
    cp "$d/gen/TermFns.v" "$d/coq/TermFns.v"
    python3 - "$COQ/Proofs" "$d/coq" <<'PY' || { echo "[$name] cannot redirect the imports"; fail=1; return; }
import glob, os, re, sys
src, dst = sys.argv[1:3]
files = [f for pat in ("TermTie.v", "TermTie_*.v", "TermTieW.v", "TermTieW_*.v", "TermTieX.v", "TermTieX_*.v")
         for f in glob.glob(os.path.join(src, pat))]
moved = {"Gen.TermFns": "TermFns"}
for f in files:
    b = os.path.basename(f)[:-2]
    moved["Proofs." + b] = b
for f in files:
    t = open(f).read()
    def fix(m):
        kind, toks = m.group(1), m.group(2).split()
        keep = [x for x in toks if x not in moved]
        mv = [moved[x] for x in toks if x in moved]
        out = ("From Avt Require %s %s." % (kind, " ".join(keep))) if keep else ""
        if mv:
            out += " From AvtMut Require %s %s." % (kind, " ".join(mv))
        return out
    t2 = re.sub(r"From Avt Require (Import|Export)((?:\s+[A-Za-z_][A-Za-z0-9_.]*[A-Za-z0-9_])+)\.(?=\s)", fix, t)
    if "From AvtMut" not in t2:
        sys.exit("no import redirected in " + f)
    open(os.path.join(dst, os.path.basename(f)), "w").write(t2)
PY
    stage() {  # compile the given modules in parallel; fail if one fails
      ( cd "$d/coq" && printf '%s\n' "$@" | xargs -P 8 -I{} sh -c \
          'timeout 1500 coqc -w -notation-overridden,-ambiguous-paths -Q "$0" Avt -Q . AvtMut {}.v > {}.log 2>&1' "$COQ" )
    }
    : > "$d/coq/all.log"
    ( stage TermFns && stage TermTie_Core && stage TermTie_Scalar TermTie_Events TermTieW_Core && stage TermTie \
      && { [ -z "$withw" ] || { stage TermTieW_Edit TermTieW_Tabs TermTieW_Print TermTieW_Switch TermTieW_Reflow \
                                      TermTieW_ResizeGen TermTieX_A TermTieX_B TermTieX_C \
                                && stage TermTieW_Modes TermTieW_Resize && stage TermTieW && stage TermTieX; }; } )
    local rc=$?
    cat "$d"/coq/*.log > "$d/coq/all.log" 2>/dev/null
    if [ $rc -eq 0 ]; then
      got=ok; echo "[$name]   TermTie*.v${withw:+, TermTieW*.v and TermTieX*.v} compile ($(grep -c 'Closed under the global context' "$d/coq/all.log") theorems closed under the global context)"
    else
      got=broken
      for lg in "$d"/coq/*.log; do
        [ "$lg" = "$d/coq/all.log" ] && continue
        grep -q '^Error\|^File' "$lg" || continue
        tf=$(basename "$lg" .log)
        grep -A12 '^File' "$lg" | head -8 | cut -c1-200 | sed "s/^/[$name]   /"
        ln=$(grep -o "$tf.v\", line [0-9]*" "$lg" | head -1 | grep -o '[0-9]*$')
        [ -n "$ln" ] && echo "[$name]   failing obligation ($tf.v): $(head -n "$ln" "$d/coq/$tf.v" | grep -E '^(Lemma|Theorem) ' | tail -1 | cut -c1-100)"
      done
    fi
  fi
  local verdict=PASS
  [ "$got" = "$expect" ] || { verdict=FAIL; fail=1; }
  echo "[$name] expected=$expect got=$got  ($(( $(date +%s) - t0 ))s)  $verdict"
}

run_case baseline ok "" "" w
run_case m1_cursor_down_ge broken \
  'let new_y = if self.cursor.row > self.bottom_margin {' 'let new_y = if self.cursor.row >= self.bottom_margin {'
run_case m2_to_col_no_minus1 broken \
  'if col >= self.cols {
            self.do_move_cursor_to_col(self.cols - 1);' 'if col >= self.cols {
            self.do_move_cursor_to_col(self.cols);'
run_case m3_to_row_no_min broken \
  'row = (top + row).max(top).min(bottom);' 'row = (top + row).max(top);'
run_case m4_cursor_up_swapped broken \
  'new_y.max(0)
        } else {
            new_y.max(self.top_margin as isize)' 'new_y.max(self.top_margin as isize)
        } else {
            new_y.max(0)'
run_case m5_decstbm_le broken \
  'if top < bottom && bottom < self.rows {' 'if top <= bottom && bottom < self.rows {'
run_case m6_execute_arm broken \
  'Cuu(n) => {
                self.cuu(n);' 'Cuu(n) => {
                self.cud(n);'
run_case m7_il_range_lt broken \
  'fn il(&mut self, n: u16) {
        let range = if self.cursor.row <= self.bottom_margin {' 'fn il(&mut self, n: u16) {
        let range = if self.cursor.row < self.bottom_margin {'
run_case m8_lf_rows_no_minus1 broken \
  '} else if self.cursor.row < self.rows - 1 {
            self.do_move_cursor_to_row(self.cursor.row + 1);' '} else if self.cursor.row < self.rows {
            self.do_move_cursor_to_row(self.cursor.row + 1);'
run_case m9_set_tab_guard broken \
  'if 0 < self.cursor.col && self.cursor.col < self.cols {' 'if 0 <= self.cursor.col && self.cursor.col < self.cols {'
run_case m10_ri_underflow broken \
  '} else if self.cursor.row > 0 {
            self.do_move_cursor_to_row(self.cursor.row - 1);' '} else if self.cursor.row >= 0 {
            self.do_move_cursor_to_row(self.cursor.row - 1);'
run_case w1_print_wrap_col broken \
  'if next_col >= self.cols {
            self.buffer.print((self.cols - 1, self.cursor.row), cell);' 'if next_col > self.cols {
            self.buffer.print((self.cols - 1, self.cursor.row), cell);' w
run_case w2_ed_above_dirty broken \
  'self.dirty_lines.extend(0..self.cursor.row + 1);' 'self.dirty_lines.extend(0..self.cursor.row);' w
run_case w3_ech_mode broken \
  'EraseMode::NextChars(n),' 'EraseMode::FromCursorToEndOfLine,' w
run_case w4_decrst_order broken \
  'self.switch_to_primary_buffer();
                    self.restore_cursor();
                    self.reflow();' 'self.restore_cursor();
                    self.switch_to_primary_buffer();
                    self.reflow();' w
run_case w5_rep_col broken \
  'let char = self.buffer[(self.cursor.col - 1, self.cursor.row)].char();' 'let char = self.buffer[(self.cursor.col, self.cursor.row)].char();' w
run_case x1_switch_primary_swap_order broken \
  'self.active_buffer_type = BufferType::Primary;
            mem::swap(&mut self.saved_ctx, &mut self.alternate_saved_ctx);
            mem::swap(&mut self.buffer, &mut self.other_buffer);' 'self.active_buffer_type = BufferType::Primary;
            mem::swap(&mut self.buffer, &mut self.other_buffer);
            mem::swap(&mut self.buffer, &mut self.other_buffer);' w
run_case x2_reflow_clamp_bound broken \
  'if self.saved_ctx.cursor_col >= self.cols {' 'if self.saved_ctx.cursor_col > self.cols {' w
run_case x3_switch_alt_no_dirty broken \
  'self.buffer = Buffer::new(self.cols, self.rows, Some(0), Some(&self.pen));
            self.dirty_lines.extend(0..self.rows);' 'self.buffer = Buffer::new(self.cols, self.rows, Some(0), Some(&self.pen));' w
run_case x4_resize_margin broken \
  'std::cmp::Ordering::Less => {
                self.top_margin = 0;
                self.bottom_margin = rows - 1;' 'std::cmp::Ordering::Less => {
                self.top_margin = 0;
                self.bottom_margin = rows;' w
# (rejected already by the Gen/Resets.v translator, whose right-hand sides are a closed list)
run_case x5_save_cursor_clamp terr \
  'self.saved_ctx.cursor_col = self.cursor.col.min(self.cols - 1);' 'self.saved_ctx.cursor_col = self.cursor.col;'
run_case x6_buffer_new_arg terr \
  'self.buffer = Buffer::new(self.cols, self.rows, Some(0), Some(&self.pen));' 'self.buffer = Buffer::new(self.cols, self.rows, None, Some(&self.pen));'
run_case e1_equivalent_no_max ok \
  'row = (top + row).max(top).min(bottom);' 'row = (top + row).min(bottom);'
run_case t2_untranslatable_w terr \
  'self.buffer.wrap(self.cursor.row);
                self.scroll_up_in_region(1);' 'self.buffer.wrap(self.cursor.row);
                self.buffer.clear_all();
                self.scroll_up_in_region(1);'
run_case t1_untranslatable terr \
  'fn cr(&mut self) {
        self.do_move_cursor_to_col(0);' 'fn cr(&mut self) {
        while self.cursor.col > 0 { self.cursor.col -= 1; }'
echo
[ $fail -eq 0 ] && echo "tie self-test: ALL AS EXPECTED" || echo "tie self-test: UNEXPECTED RESULTS"
exit $fail
