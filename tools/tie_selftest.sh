#!/bin/bash
# Self-test of the terminal.rs tie (translate/term2coq.py -> Gen/TermFns.v -> Proofs/TermTie.v).
# For the unmutated source and for hand-made single-token mutations of a COPY of /repo/src placed
# under $MUT, run the translator into a scratch Gen dir and compile Proofs/TermTie.v against the
# scratch TermFns.v.  Expected: the baseline and the semantically equivalent mutant compile, every
# semantic mutant breaks a proof obligation, an untranslatable edit gives TRANSLATE-ERROR (exit 3: the unit fails alone; 2: fatal).
# usage: tools/tie_selftest.sh        (needs the main tree built: coq/Proofs/TermEasy.vo)
ROOT=$(cd "$(dirname "$0")/.." && pwd)
COQ=$ROOT/coq
MUT=${MUT:-/tmp/pw/tr/mut}
REPO_SRC=${REPO_SRC:-/tmp/pw/src0/src}   # frozen copy of the sources (/repo/src is patched concurrently)
mkdir -p "$MUT"
fail=0

run_case() {  # name expected(ok|broken|terr) old new [w]    (w: also compile Proofs/TermTieW.v)
  local name=$1 expect=$2 old=$3 new=$4 withw=$5 d=$MUT/$1
  if [ -n "$CASES" ] && ! echo " $CASES " | grep -q " $name "; then return; fi   # CASES="a b c": run a subset
  rm -rf "$d"; mkdir -p "$d/gen" "$d/coq"
  cp -r "$REPO_SRC" "$d/src"
  if [ -n "$old" ]; then
    python3 - "$d/src/terminal.rs" "$old" "$new" <<'PY' || { echo "[$name] MUTATION DID NOT APPLY"; fail=1; return; }
import sys
p, old, new = sys.argv[1:4]
s = open(p, encoding="utf-8").read()
if s.count(old) != 1:
    sys.exit("pattern occurs %d times" % s.count(old))
open(p, "w", encoding="utf-8").write(s.replace(old, new))
PY
    diff <(cat "$REPO_SRC/terminal.rs") "$d/src/terminal.rs" | grep '^[<>]' | sed "s/^/[$name]   /"
  fi
  local t0=$(date +%s)
  python3 "$ROOT/translate/avt2coq.py" "$d/src" "$d/gen" > "$d/translate.log" 2>&1
  local code=$?
  local got
  if [ $code -ne 0 ]; then
    got=terr; sed "s/^/[$name]   /" "$d/translate.log"
  else
    # compile the scratch TermFns.v under its own logical name and TermTie.v against it
    cp "$d/gen/TermFns.v" "$d/coq/TermFns.v"
    sed 's/^From Avt Require Import Oracles.Step Proofs.Inv Proofs.TermEasy Gen.TermFns\.$/From Avt Require Import Oracles.Step Proofs.Inv Proofs.TermEasy. From AvtMut Require Import TermFns./' \
      "$COQ/Proofs/TermTie.v" > "$d/coq/TermTie.v"
    grep -q "From AvtMut Require Import TermFns" "$d/coq/TermTie.v" || { echo "[$name] cannot redirect the import"; fail=1; return; }
    sed 's/^From Avt Require Import Oracles.Step Proofs.Inv Proofs.TermEasy Gen.TermFns Proofs.TermTie Proofs.InvStep\.$/From Avt Require Import Oracles.Step Proofs.Inv Proofs.TermEasy Proofs.InvStep. From AvtMut Require Import TermFns TermTie./' \
      "$COQ/Proofs/TermTieW.v" > "$d/coq/TermTieW.v"
    grep -q "From AvtMut Require Import TermFns TermTie" "$d/coq/TermTieW.v" || { echo "[$name] cannot redirect the import (W)"; fail=1; return; }
    sed 's/^From Avt Require Import Oracles.Step Proofs.Inv Proofs.TermEasy Gen.TermFns Proofs.TermTie Proofs.InvStep$/From Avt Require Import Oracles.Step Proofs.Inv Proofs.TermEasy Proofs.InvStep. From AvtMut Require Import TermFns TermTie TermTieW. From Avt Require Import Proofs.Inv/; s/^  Proofs.TermTieW\.$/./' \
      "$COQ/Proofs/TermTieX.v" > "$d/coq/TermTieX.v"
    : > "$d/coq/tiew.log"
    ( cd "$d/coq" && timeout 300 coqc -w -notation-overridden,-ambiguous-paths -Q "$COQ" Avt -Q . AvtMut TermFns.v > fns.log 2>&1 \
      && timeout 900 coqc -w -notation-overridden,-ambiguous-paths -Q "$COQ" Avt -Q . AvtMut TermTie.v > tie.log 2>&1 \
      && { [ -z "$withw" ] || { timeout 1500 coqc -w -notation-overridden,-ambiguous-paths -Q "$COQ" Avt -Q . AvtMut TermTieW.v > tiew.log 2>&1 \
                                 && timeout 900 coqc -w -notation-overridden,-ambiguous-paths -Q "$COQ" Avt -Q . AvtMut TermTieX.v >> tiew.log 2>&1; }; } )
    if [ $? -eq 0 ]; then
      got=ok; echo "[$name]   TermTie.v${withw:+, TermTieW.v and TermTieX.v} compile ($(cat "$d/coq/tie.log" "$d/coq/tiew.log" | grep -c 'Closed under the global context') theorems closed under the global context)"
    else
      got=broken
      cat "$d/coq/fns.log" "$d/coq/tie.log" "$d/coq/tiew.log" 2>/dev/null | grep -A12 '^File' | head -16 | cut -c1-200 | sed "s/^/[$name]   /"
      for tf in TermTie TermTieW TermTieX; do
        ln=$(cat "$d/coq/tie.log" "$d/coq/tiew.log" | grep -o "$tf.v\", line [0-9]*" | head -1 | grep -o '[0-9]*$')
        [ -n "$ln" ] && echo "[$name]   failing obligation ($tf.v): $(head -n "$ln" "$d/coq/$tf.v" | grep -E '^(Lemma|Theorem) ' | tail -1 | cut -c1-100)"
      done
    fi
  fi
  local verdict=PASS
  [ "$got" = "$expect" ] || { verdict=FAIL; fail=1; }
  echo "[$name] expected=$expect got=$got  ($(( $(date +%s) - t0 ))s)  $verdict"
}

run_case baseline ok "" "" w
run_case m1_cursor_down_ge broken \
  'let new_y = if self.cursor.row > self.bottom_margin {' 'let new_y = if self.cursor.row >= self.bottom_margin {'
run_case m2_to_col_no_minus1 broken \
  'if col >= self.cols {
            self.do_move_cursor_to_col(self.cols - 1);' 'if col >= self.cols {
            self.do_move_cursor_to_col(self.cols);'
run_case m3_to_row_no_min broken \
  'row = (top + row).max(top).min(bottom);' 'row = (top + row).max(top);'
run_case m4_cursor_up_swapped broken \
  'new_y.max(0)
        } else {
            new_y.max(self.top_margin as isize)' 'new_y.max(self.top_margin as isize)
        } else {
            new_y.max(0)'
run_case m5_decstbm_le broken \
  'if top < bottom && bottom < self.rows {' 'if top <= bottom && bottom < self.rows {'
run_case m6_execute_arm broken \
  'Cuu(n) => {
                self.cuu(n);' 'Cuu(n) => {
                self.cud(n);'
run_case m7_il_range_lt broken \
  'fn il(&mut self, n: u16) {
        let range = if self.cursor.row <= self.bottom_margin {' 'fn il(&mut self, n: u16) {
        let range = if self.cursor.row < self.bottom_margin {'
run_case m8_lf_rows_no_minus1 broken \
  '} else if self.cursor.row < self.rows - 1 {
            self.do_move_cursor_to_row(self.cursor.row + 1);' '} else if self.cursor.row < self.rows {
            self.do_move_cursor_to_row(self.cursor.row + 1);'
run_case m9_set_tab_guard broken \
  'if 0 < self.cursor.col && self.cursor.col < self.cols {' 'if 0 <= self.cursor.col && self.cursor.col < self.cols {'
run_case m10_ri_underflow broken \
  '} else if self.cursor.row > 0 {
            self.do_move_cursor_to_row(self.cursor.row - 1);' '} else if self.cursor.row >= 0 {
            self.do_move_cursor_to_row(self.cursor.row - 1);'
run_case w1_print_wrap_col broken \
  'if next_col >= self.cols {
            self.buffer.print((self.cols - 1, self.cursor.row), cell);' 'if next_col > self.cols {
            self.buffer.print((self.cols - 1, self.cursor.row), cell);' w
run_case w2_ed_above_dirty broken \
  'self.dirty_lines.extend(0..self.cursor.row + 1);' 'self.dirty_lines.extend(0..self.cursor.row);' w
run_case w3_ech_mode broken \
  'EraseMode::NextChars(n),' 'EraseMode::FromCursorToEndOfLine,' w
run_case w4_decrst_order broken \
  'self.switch_to_primary_buffer();
                    self.restore_cursor();
                    self.reflow();' 'self.restore_cursor();
                    self.switch_to_primary_buffer();
                    self.reflow();' w
run_case w5_rep_col broken \
  'let char = self.buffer[(self.cursor.col - 1, self.cursor.row)].char();' 'let char = self.buffer[(self.cursor.col, self.cursor.row)].char();' w
run_case x1_switch_primary_swap_order broken \
  'self.active_buffer_type = BufferType::Primary;
            mem::swap(&mut self.saved_ctx, &mut self.alternate_saved_ctx);
            mem::swap(&mut self.buffer, &mut self.other_buffer);' 'self.active_buffer_type = BufferType::Primary;
            mem::swap(&mut self.buffer, &mut self.other_buffer);
            mem::swap(&mut self.buffer, &mut self.other_buffer);' w
run_case x2_reflow_clamp_bound broken \
  'if self.saved_ctx.cursor_col >= self.cols {' 'if self.saved_ctx.cursor_col > self.cols {' w
run_case x3_switch_alt_no_dirty broken \
  'self.buffer = Buffer::new(self.cols, self.rows, Some(0), Some(&self.pen));
            self.dirty_lines.extend(0..self.rows);' 'self.buffer = Buffer::new(self.cols, self.rows, Some(0), Some(&self.pen));' w
run_case x4_resize_margin broken \
  'std::cmp::Ordering::Less => {
                self.top_margin = 0;
                self.bottom_margin = rows - 1;' 'std::cmp::Ordering::Less => {
                self.top_margin = 0;
                self.bottom_margin = rows;' w
# (rejected already by the Gen/Resets.v translator, whose right-hand sides are a closed list)
run_case x5_save_cursor_clamp terr \
  'self.saved_ctx.cursor_col = self.cursor.col.min(self.cols - 1);' 'self.saved_ctx.cursor_col = self.cursor.col;'
run_case x6_buffer_new_arg terr \
  'self.buffer = Buffer::new(self.cols, self.rows, Some(0), Some(&self.pen));' 'self.buffer = Buffer::new(self.cols, self.rows, None, Some(&self.pen));'
run_case e1_equivalent_no_max ok \
  'row = (top + row).max(top).min(bottom);' 'row = (top + row).min(bottom);'
run_case t2_untranslatable_w terr \
  'self.buffer.wrap(self.cursor.row);
                self.scroll_up_in_region(1);' 'self.buffer.wrap(self.cursor.row);
                self.buffer.clear_all();
                self.scroll_up_in_region(1);'
run_case t1_untranslatable terr \
  'fn cr(&mut self) {
        self.do_move_cursor_to_col(0);' 'fn cr(&mut self) {
        while self.cursor.col > 0 { self.cursor.col -= 1; }'
echo
[ $fail -eq 0 ] && echo "tie self-test: ALL AS EXPECTED" || echo "tie self-test: UNEXPECTED RESULTS"
exit $fail
