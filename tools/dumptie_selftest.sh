#!/bin/bash
# Self-test of the dump ties (translate/dump2coq.py -> Gen/DumpFns.v -> Proofs/DumpTie.v).
# For the unmutated snapshot and for hand-made single-token mutations of a COPY of the Rust sources placed under
# $MUT: run the translator into a scratch Gen dir, compile the scratch DumpFns.v under the logical name AvtMut and
# Proofs/DumpTie.v against it.  When a lemma fails, its proof is replaced by an admission IN THE SCRATCH COPY ONLY
# and the file is compiled again, so that the exact set of broken lemmas is found (not just the first one).
# Expected: the baseline and the equivalent mutant compile; every semantic mutant breaks exactly the listed
# lemmas; an edit outside the translated fragment gives TRANSLATE-ERROR (exit 3: the unit fails alone; 2: fatal).  The cases run in parallel.
# usage: [ONLY=regex] tools/dumptie_selftest.sh     (needs the main tree built: coq/Proofs/BufTie.vo, InvStep.vo, PenInv.vo)
ROOT=$(cd "$(dirname "$0")/.." && pwd)
COQ=$ROOT/coq
MUT=${MUT:-/tmp/pw/td/mut}
REPO_SRC=${REPO_SRC:-/tmp/pw/src0/src}
JOBS=${JOBS:-8}
COQFLAGS="-w -notation-overridden,-ambiguous-paths"
mkdir -p "$MUT"

# compile $1 (a scratch tie file); on a failing lemma admit it in the scratch copy and retry.
# prints the names of the broken lemmas, one per line
broken_lemmas() {
  local f=$1 n=0
  while [ $n -lt 12 ]; do
    n=$((n + 1))
    if timeout 300 coqc $COQFLAGS -Q "$COQ" Avt -Q . AvtMut "$f" > "${f%.v}.log" 2>&1; then return 0; fi
    python3 - "$f" "${f%.v}.log" <<'PY' || return 1
import re, sys
f, log = sys.argv[1:3]
src = open(f, encoding="utf-8").read()
m = re.search(r'line (\d+), characters', open(log, encoding="utf-8").read())
if not m:
    print("?no-error-location"); sys.exit(1)
line = int(m.group(1))
off = sum(len(l) + 1 for l in src.split("\n")[:line - 1])
heads = [h for h in re.finditer(r'^(Lemma|Theorem|Corollary|Example) (\w+)', src, re.M) if h.start() <= off]
if not heads:
    print("?error-before-the-first-lemma(line %d)" % line); sys.exit(1)
h = heads[-1]
p = re.compile(r'\bProof\..*?\bQed\.', re.S).search(src, h.start())
if not p or off < p.start():
    print("%s(statement)" % h.group(2)); sys.exit(1)
print(h.group(2))
open(f, "w", encoding="utf-8").write(src[:p.start()] + "Ad" + "mitted." + src[p.end():])
PY
  done
  return 1
}

run_case() {  # name expected(ok | terr | lemma[,lemma..]) file old new      (writes $MUT/name/report)
  local name=$1 expect=$2 file=$3 old=$4 new=$5 d=$MUT/$1
  rm -rf "$d"; mkdir -p "$d/gen" "$d/coq"
  cp -r "$REPO_SRC" "$d/src"
  {
  if [ -n "$file" ]; then
    python3 - "$d/src/$file" "$old" "$new" <<'PY' || { echo "[$name] MUTATION DID NOT APPLY"; echo "[$name] FAIL"; exit; }
import sys
p, old, new = sys.argv[1:4]
s = open(p, encoding="utf-8").read()
if s.count(old) != 1:
    sys.exit("pattern occurs %d times" % s.count(old))
open(p, "w", encoding="utf-8").write(s.replace(old, new))
PY
    diff "$REPO_SRC/$file" "$d/src/$file" | grep '^[<>]' | sed "s|^|[$name]   $file: |"
  fi
  local t0=$(date +%s) got
  if ! python3 "$ROOT/translate/avt2coq.py" "$d/src" "$d/gen" > "$d/translate.log" 2>&1; then
    got=terr; sed "s/^/[$name]   /" "$d/translate.log"
  else
    cp "$d/gen/DumpFns.v" "$d/coq/"
    sed 's/^\(From Avt Require Import .*\) Gen\.DumpFns\.$/\1. From AvtMut Require Import DumpFns./' "$COQ/Proofs/DumpTie.v" > "$d/coq/DumpTie.v"
    grep -q "From AvtMut Require Import DumpFns" "$d/coq/DumpTie.v" || { echo "[$name] cannot redirect the import"; echo "[$name] FAIL"; exit; }
    got=$( cd "$d/coq" && {
      timeout 300 coqc $COQFLAGS -Q "$COQ" Avt -Q . AvtMut DumpFns.v > DumpFns.log 2>&1 || echo "DumpFns.v(does-not-compile)"
      [ -f DumpFns.vo ] && broken_lemmas DumpTie.v
    } | sort | paste -sd, - )
    if [ -z "$got" ]; then
      got=ok
      echo "[$name]   DumpTie.v compiles ($(grep -c 'Closed under the global context' "$d/coq/DumpTie.log") theorems closed under the global context)"
    else
      echo "[$name]   broken tie lemmas: $got"
    fi
  fi
  local want=$(echo "$expect" | tr ',' '\n' | sort | paste -sd, -)
  local verdict=PASS
  [ "$got" = "$want" ] || verdict=FAIL
  echo "[$name] expected=$want got=$got  ($(( $(date +%s) - t0 ))s)  $verdict"
  } > "$d/report" 2>&1
}

CASES=()
case_() { [ -n "$ONLY" ] && [[ ! "$1" =~ $ONLY ]] && return; CASES+=("$1"); while [ "$(jobs -rp | wc -l)" -ge "$JOBS" ]; do sleep 0.5; done; run_case "$@" & }

case_ baseline ok "" "" ""

# ---- Terminal::dump (terminal.rs)
case_ m01_step5_ctx tie_term_dump terminal.rs \
  'if !alternate_ctx.auto_wrap_mode {
                // disable auto-wrap mode' \
  'if !primary_ctx.auto_wrap_mode {
                // disable auto-wrap mode'
case_ m02_1047_1049 tie_term_dump terminal.rs 'seq.push_str("\u{9b}?1047h");' 'seq.push_str("\u{9b}?1049h");'
case_ m03_tab_plus_1 tie_term_dump terminal.rs '`\u{1b}[W", t + 1));' '`\u{1b}[W", t));'
case_ m04_step9_disjunct tie_term_dump terminal.rs \
  'if row < self.top_margin || row > self.bottom_margin {' 'if row > self.bottom_margin {'
case_ m05_dropped_step tie_term_dump terminal.rs \
  '        seq.push_str("\u{1b}[m");
' ''
case_ m06_cols_minus_2 dump_pre_necessary,tie_term_dump terminal.rs \
  'self.buffer[(self.cols - 1, self.cursor.row)]' 'self.buffer[(self.cols - 2, self.cursor.row)]'
case_ m07_cub_is_cuf tie_term_dump terminal.rs \
  'let n = self.saved_ctx.cursor_col - col;
                        seq.push_str(&format!("\u{9b}{n}D"));' \
  'let n = self.saved_ctx.cursor_col - col;
                        seq.push_str(&format!("\u{9b}{n}C"));'
case_ m08_margins_rows D4_rows,dump_pre_necessary,tie_term_dump terminal.rs \
  'self.bottom_margin < self.rows - 1 {' 'self.bottom_margin < self.rows {'
case_ m09_primary_is_other tie_primary_buffer terminal.rs \
  'fn primary_buffer(&self) -> &Buffer {
        if self.active_buffer_type == BufferType::Primary {' \
  'fn primary_buffer(&self) -> &Buffer {
        if self.active_buffer_type == BufferType::Alternate {'
case_ m10_ctx_awm D1_ctx_is_default,tie_ctx_is_default terminal.rs \
  '&& !self.origin_mode
            && self.auto_wrap_mode' \
  '&& !self.origin_mode
            && !self.auto_wrap_mode'
case_ e1_equivalent ok terminal.rs 'if self.top_margin > 0 ||' 'if 0 < self.top_margin ||'

# ---- Color::sgr_params (color.rs), Pen::dump / Pen::is_default (pen.rs)
# (`<=` is rejected by the older translator of the SGRP_* thresholds in avt2coq.py: still detected, as a TErr)
case_ m11_sgr_lt_le terr color.rs 'Indexed(c) if *c < 8 =>' 'Indexed(c) if *c <= 8 =>'
case_ m11b_sgr_lt_9 tie_sgr_params color.rs 'Indexed(c) if *c < 8 =>' 'Indexed(c) if *c < 9 =>'
case_ m12_sgr_bright_off tie_sgr_params color.rs '(base + 52 + c).to_string()' '(base + 62 + c).to_string()'
case_ m13_bold_is_faint tie_pen_dump pen.rs \
  'Intensity::Bold => {
                s.push_str(";1");' \
  'Intensity::Bold => {
                s.push_str(";2");'
case_ m14_bg_base_30 tie_pen_dump pen.rs 'c.sgr_params(40)' 'c.sgr_params(30)'
case_ m15_is_default_no_blink tie_pen_is_default pen.rs \
  '            && !self.is_blink()
' ''
case_ t1_u8_overflow terr color.rs 'format!("{}:5:{}", base + 8, c)' 'format!("{}:5:{}", base + 218, c)'
case_ t2_not_append_only terr pen.rs "s.push('m');" "s.insert(0, 'm');"

# ---- Parser::dump, Display for Param (parser.rs)
case_ m16_sos_is_osc tie_parser_dump parser.rs \
  "SosPmApcString => {
                seq.push('\u{98}');" \
  "SosPmApcString => {
                seq.push('\u{9d}');"
case_ m17_dcs_passthrough_no_final tie_parser_dump parser.rs \
  'format!("\u{90}{intermediates}\u{40}")' 'format!("\u{90}{intermediates}")'
case_ m18_param_sep tie_param_fmt parser.rs 'write!(f, ":{part}")?;' 'write!(f, ";{part}")?;'
case_ t3_exclusive_slice terr parser.rs \
  'CsiParam => {
                let intermediates = self.intermediate.iter().collect::<String>();

                let params = &self.params[..=self.cur_param]' \
  'CsiParam => {
                let intermediates = self.intermediate.iter().collect::<String>();

                let params = &self.params[..self.cur_param]'

# ---- Buffer::dump, rep_encode_cell_text (buffer.rs), Chunks (line.rs)
case_ m19_rep_threshold tie_rep_encode buffer.rs '} else if count > 5 {' '} else if count > 4 {'
case_ m20_rep_count tie_rep_encode buffer.rs \
  'if count > 5 {
            dump.push_str(&format!("{}\x1b[{}b", prev, count - 1));
        } else {' \
  'if count > 5 {
            dump.push_str(&format!("{}\x1b[{}b", prev, count));
        } else {'
case_ m21_crlf_le tie_buffer_dump buffer.rs 'if i < last && !line.wrapped {' 'if i <= last && !line.wrapped {'
case_ m22_cutoff tie_buffer_dump buffer.rs 'cutoff = i + 1;' 'cutoff = i;'
case_ m23_cutoff_no_wrapped tie_buffer_dump buffer.rs \
  'if wrapped || line.wrapped || !line.is_blank() {' 'if line.wrapped || !line.is_blank() {'
case_ m24_chunk_pred tie_buffer_dump buffer.rs \
  'line.chunks(|c1, c2| c1.pen() != c2.pen())' 'line.chunks(|c1, c2| c1.pen() == c2.pen())'
case_ m25_index_swapped tie_buffer_index buffer.rs '&self.view()[row][col]' '&self.view()[col][row]'
case_ t4_chunks_iterator terr line.rs \
  'self.cells.push(*cell);
                continue;' \
  'continue;'

# ---- Vt::dump (vt.rs)
case_ t5_vt_dump_order terr vt.rs \
  'let mut seq = self.terminal.dump();
        seq.push_str(&self.parser.dump());' \
  'let mut seq = self.parser.dump();
        seq.insert_str(0, &self.terminal.dump());'
wait

fail=0
for c in "${CASES[@]}"; do
  cat "$MUT/$c/report"
  grep -q "PASS$" "$MUT/$c/report" || fail=1
done
echo
[ $fail -eq 0 ] && echo "dump tie self-test: ALL AS EXPECTED" || echo "dump tie self-test: UNEXPECTED RESULTS"
exit $fail
