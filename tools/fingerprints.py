#!/usr/bin/env python3
"""Token-level fingerprints of the modelled Rust sources (comments, whitespace, #[cfg(test)] and
#[cfg(avt_verif)] items removed).  `fingerprints.py --write` pins the current tree into
fingerprints.json; `changed()` lists the files whose fingerprint differs from the pinned one.
A changed fingerprint is never a verdict (a harmless rewrite changes it): it only escalates the
volume of the correspondence / oracle runs of the properties that depend on that file."""
import hashlib, json, os, sys
ROOT = os.path.dirname(os.path.dirname(os.path.abspath(__file__)))
sys.path.insert(0, os.path.join(ROOT, "translate"))
from rustlex import lex, strip_cfg_items, LexError  # noqa: E402

FILES = ["parser.rs", "terminal.rs", "buffer.rs", "line.rs", "tabs.rs", "vt.rs", "pen.rs", "cell.rs", "color.rs",
         "charset.rs", "util.rs", "terminal/cursor.rs", "terminal/dirty_lines.rs"]
# which properties depend on which file (coarse: used only to decide what to escalate)
DEPENDS = {
    "parser.rs": ["C01", "C03", "C08", "C11", "C12", "C19", "C20"],
    "terminal.rs": ["C01", "C02", "C04", "C05", "C06", "C07", "C08", "C09", "C10", "C11", "C12", "C13", "C14", "C15", "C16",
                    "C17", "C18", "C19"],
    "buffer.rs": ["C01", "C02", "C04", "C06", "C07", "C09", "C10", "C11", "C12", "C13", "C14", "C15", "C16"],
    "line.rs": ["C01", "C02", "C04", "C07", "C09", "C10", "C11", "C16"],
    "tabs.rs": ["C01", "C05", "C11", "C18"],
    "vt.rs": ["C01", "C02", "C11", "C12", "C13", "C14", "C15"],
    "pen.rs": ["C08", "C11"], "cell.rs": ["C04", "C08"], "color.rs": ["C08", "C11"], "charset.rs": ["C04"],
    "util.rs": ["C09", "C14"], "terminal/cursor.rs": ["C02"], "terminal/dirty_lines.rs": ["C15", "C01"],
}


def fingerprint(path):
    try:
        toks = strip_cfg_items(lex(open(path, encoding="utf-8").read()))
        data = "\x00".join(k + ":" + t for k, t in toks)
    except (LexError, OSError, IndexError) as e:
        data = "unlexable:" + str(e) + ":" + (open(path, "rb").read().hex() if os.path.exists(path) else "missing")
    return hashlib.sha256(data.encode("utf-8", "replace")).hexdigest()


def current(src):
    return {f: fingerprint(os.path.join(src, f)) for f in FILES}


def changed(src):
    p = os.path.join(ROOT, "fingerprints.json")
    if not os.path.exists(p):
        return []
    pinned = json.load(open(p))
    cur = current(src)
    return sorted(f for f in FILES if pinned.get(f) != cur.get(f))


if __name__ == "__main__":
    src = "/repo/src"
    if "--write" in sys.argv:
        json.dump(current(src), open(os.path.join(ROOT, "fingerprints.json"), "w"), indent=1)
        print("pinned", len(FILES), "files")
    else:
        print(changed(src))
