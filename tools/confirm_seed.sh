#!/bin/bash
# usage: confirm_seed.sh <dir with patch.diff + demo.rs> <id>
# Confirms in a scratch worktree (outside /repo and /verif): suite green with the change, demo red with / green without.
set -u
D=$1; ID=$2
W=/tmp/confirm_$ID
git -C /repo worktree remove --force $W 2>/dev/null
git -C /repo worktree add --detach $W HEAD -q || exit 3
export CARGO_NET_OFFLINE=true CARGO_TARGET_DIR=${CONFIRM_TARGET:-/tmp/confirm_target}
cd $W
cp $D/demo.rs tests/demo_$ID.rs
R_BASE=$(cargo test --offline --test demo_$ID 2>&1 | grep -E "^test result" | head -1)
git apply $D/patch.diff || { echo "APPLY-FAILED"; cd /; git -C /repo worktree remove --force $W; exit 4; }
R_MUT=$(cargo test --offline --test demo_$ID 2>&1 | grep -E "^test result|error(\[|:)" | head -2 | tr '\n' ' ')
rm tests/demo_$ID.rs
SUITE=$(cargo test --offline 2>&1 | grep -E "^test result|error(\[|:)" | tr '\n' ' ')
cd /
git -C /repo worktree remove --force $W
echo "demo_without_change: $R_BASE"
echo "demo_with_change:    $R_MUT"
echo "suite_with_change:   $SUITE"
