#!/usr/bin/env python3
"""Regenerate MANIFEST.json from the table below (keeps it valid and consistent)."""
import json, os, re
ROOT = os.path.dirname(os.path.dirname(os.path.abspath(__file__)))
TITLES = {}
for l in open(os.path.join(ROOT, "properties.jsonl")):
    p = json.loads(l); TITLES[p["id"]] = p["title"]

# property -> (status text, technique)
TEXT = {
 "C01": "Coq theorems: the reflow loop and Buffer::resize never panic / always terminate for every buffer, size and cursor (all of nat); PARTIAL for the remaining operations, which are covered by the step-wise correspondence with panic verdicts, a model-free stress run with a watchdog and the executable statement on the implementation",
 "C02": "Coq theorems: every row produced by reflow / Buffer::resize has the new width, the buffer keeps >= rows lines, the last line is unwrapped, the cursor row stays inside; PARTIAL for the remaining operations (executable geometry statement holds_C02 evaluated on every implementation post-state)",
 "C03": "Coq theorems over the Parser::feed table regenerated from the source on every run (all 14 states x all of N), translator validated by an exhaustive sweep of the implementation",
 "C04": "Coq theorem at buffer level (cell write changes exactly that cell); PARTIAL: the full print/wrap/insert refinement spec_print is an executable statement evaluated on every implementation step",
 "C05": "Coq theorem: for every cursor command (tab searches aside) the model function equals the specification spec_cursor on every state satisfying the scalar invariant - only cursor fields change, no cell changes",
 "C06": "Coq theorems: Buffer::scroll_up (all three code paths) and scroll_down equal the list-level specification incl. what enters the scrollback; PARTIAL at terminal level (spec_scroll evaluated on every implementation step)",
 "C07": "Coq theorem: Buffer::erase in all seven modes equals the closed-form extent; insert/delete/clear likewise (library BufRow); PARTIAL at terminal level (spec_edit evaluated on every implementation step)",
 "C08": "Coq theorems: SGR decoder = grammar of the property for every parameter array; each op acts on the public pen observations as specified (arbitrary attribute byte); pen = left fold; SGR changes nothing but the pen",
 "C10": "Coq theorems: resize to the same size is the identity; Buffer::resize is total and re-establishes the invariant; PARTIAL: preservation of logical lines / cursor character (resize_preserves) is an executable statement evaluated on every implementation resize",
 "C13": "Coq theorem: the end-of-call trim leaves at most L + L/10 scrollback lines (exactly L after a trim), soft <= hard for every limit; PARTIAL: the whole-run bound holds_C13 is evaluated after every implementation call",
 "C17": "Coq theorems: the four save spellings store exactly (visible column, row, pen, origin, auto-wrap) and change nothing else; the restore spellings re-establish exactly those and clear wrap-pending; per-screen bookkeeping (holds_C17) evaluated on every implementation step",
 "C18": "Coq theorems: default stops, set/unset, n-th next/previous stop, contract and expand (incl. the first new column when a multiple of 8), and fresh terminals keep exactly the default stops across any resize",
 "C19": "Coq theorem: the regenerated hard_reset assignment list yields syntactically the terminal built by the regenerated Terminal::new (every field); full-state equality with a fresh Vt (holds_C19) evaluated on every implementation RIS",
}
TECH = "machine-checked proof in Coq (model regenerated/hand-written, tied by translator + step-wise correspondence and executable statements run on the implementation)"
NOT_YET = {
 "C09": "theorem not yet proved (the executable statement holds_C09 and the correspondence already run in ./check C09); claimed once a theorem is Qed",
 "C11": "theorem not yet proved (dump/restore oracle holds_C11 with the known-finding classifiers already runs in ./check C11); claimed once a theorem is Qed",
 "C12": "theorem not yet proved (chunking oracle holds_C12 already runs in ./check C12); claimed once a theorem is Qed",
 "C14": "theorem not yet proved (stream oracle holds_C14 already runs in ./check C14); claimed once a theorem is Qed",
 "C15": "theorem not yet proved (holds_C15 already runs in ./check C15); claimed once a theorem is Qed",
 "C16": "theorem not yet proved (holds_C16 already runs in ./check C16); claimed once a theorem is Qed",
 "C20": "theorem not yet proved (inert-sequence oracle + exhaustive sweep already run in ./check C20); claimed once a theorem is Qed",
}
claimed = sorted(p for p in TEXT if os.path.exists(os.path.join(ROOT, "coq", "Properties", p + ".v")))
m = {
 "version": 1,
 "setup_cmd": "./setup.sh",
 "hooks": {"guard": "avt_verif",
           "enable": "RUSTFLAGS=\"--cfg avt_verif\" (set in harness/.cargo/config.toml; harness crate has a path dependency on /repo)",
           "baseline_off_cmd": "cd /repo && cargo test --workspace --no-fail-fast --offline",
           "source_commits": ["0c915cb"], "add_only": True},
 "engines": [{"name": "coq-proof+correspondence", "path": "check", "serves_properties": claimed,
              "kind_free_text": "Coq 8.16 theorems over a model (tables regenerated from the source by translate/avt2coq.py, the rest hand-written), tied to the code by the translator, an exhaustive parser sweep and a step-wise correspondence (extracted OCaml model run from the implementation's own pre-states); every theorem's conclusion is an executable statement also evaluated on the implementation"}],
 "checks": [],
 "notes": "See DESIGN.md. Known findings: KNOWN_FINDINGS.json. Seeded changes used to test the checks: seeded/.",
 "not_applicable": [],
}
for p in claimed:
    m["checks"].append({
        "property_id": p,
        "quick_cmd": "./check %s --tier quick" % p,
        "thorough_cmd": "./check %s --tier thorough" % p,
        "evidence_file": "/verif/evidence/%s.json" % p,
        "replay_cmd_template": "./check %s --replay {path}" % p,
        "engine": "coq-proof+correspondence",
        "level_claimed": {"category": "proof", "text": TEXT[p], "design_ref": "DESIGN.md section 7 (%s) and section 13 (status)" % p},
        "level_note": "trusted: Coq 8.16.1 kernel + vm_compute; translator (validated); ExtrOcamlBasic extraction; Rust harness + cfg(avt_verif) state hook; hand-modelled terminal.rs/buffer.rs/line.rs/tabs.rs tied by step-wise correspondence (testing); specs in coq/Spec are the formal reading of the property",
        "technique": TECH,
    })
for p in sorted(TITLES):
    if p not in claimed:
        m["not_applicable"].append({"property_id": p, "reason": NOT_YET.get(p, "not yet claimed")})
json.dump(m, open(os.path.join(ROOT, "MANIFEST.json"), "w"), indent=1)
print("claimed:", claimed)
