#!/usr/bin/env python3
"""Regenerate MANIFEST.json from the table below (keeps it valid and consistent)."""
import json, os, re
ROOT = os.path.dirname(os.path.dirname(os.path.abspath(__file__)))
TITLES = {}
for l in open(os.path.join(ROOT, "properties.jsonl")):
    p = json.loads(l); TITLES[p["id"]] = p["title"]

# property -> (status text, technique)
TEXT = {
 "C11": "Coq theorems: C11_restore_and_future - for every history of feeds, flushes and resizes, outside the three known-finding classes (kf1 origin mode with cursor outside the region; kf2 alternate screen with stale parked primary; kf3 sizes beyond the 16-bit parameter range), dump() fed to a fresh terminal restores an observationally equal terminal (cells, pens, wrap marks, cursor incl. wrap-pending, visibility, modes, margins, tabs, charsets, saved contexts, parser state incl. mid-sequence cuts) and the two stay equal under every further input; building blocks: Parser::dump / Pen::dump / Buffer::dump round trips, the 14-step script, bisimulation. The same statement is evaluated on the implementation (holds_C11 + public observables), dump strings are compared with the model's character by character; findings narrowed to their exact executable classes (kf1_C11_narrow, kf3b_C11), any target limit (C11_exact)",
 "C09": "Coq theorems: for every width/height >= 1 and every list of printable lines, text() of a fresh terminal fed the CR LF-joined text equals the lines (trailing whitespace trimmed, trailing empties aside); width independence; TextUnwrapper agreement; holds_C09 is a theorem of the model and is evaluated on the implementation",
 "C16": "Coq theorems: holds_C16 for every control function from every state satisfying the invariant (parked primary untouched while on the alternate screen, blank alternate screen in the current pen on every entry incl. mode lists, 1049 saves first, exact restore when the size is unchanged); resized excursion: C10's resize_preserves on the parked buffer; text of the primary on EVERY return (47 / 1047 / 1049, any mode list, any scrollback limit: re-wrapped, never altered, exact when the size is unchanged) and whole-excursion theorems (C16_return_text, C16_whole_excursion)",
 "C12": "Coq theorems: for EVERY scrollback limit any two chunkings of the same character stream (and per-character feed()) from any state satisfying the invariant end with equal parser and the same visible screen, cursor, modes, margins, tabs, saved contexts (C12_sessions, C12_perchar); with unlimited scrollback also the same lines() (holds_C12). Underlying: no control function reads dirty flags, trim flags or rows above the view. Known finding KF-C12-1 (lines() after per-character feed() on the alternate screen) classified separately; from every state (parked_ok discharged), per-character lines() on the primary screen, mixed feed()/feed_str() sessions (Proofs/C12Lines.v)",
 "C14": "Coq theorem: for every size, limit L and RIS-free session of feed_str calls from the initial state ending on the primary screen, drained lines ++ final lines() = lines() of the unlimited run (cell for cell, in order); nothing lost at a report (C14_flush); also for sessions mixing feed() and feed_str() cut differently on both sides (C14_mixed_calls)",
 "C15": "Coq theorems: every control function marks every row whose cells it changes (ghost invariant DInv preserved by execute / resize), hence every report returned by feed_str / resize is sound (holds_C15); history level, unconditional: along every history from every fresh terminal each report is sound w.r.t. the previous one (C15_histories)",
 "C20": "Coq theorem over the regenerated parser tables: every concatenation of OSC/DCS/SOS/PM/APC strings (7/8-bit introducers, ST / ESC \\\\ / BEL), unimplemented CSI / ESC sequences and unassigned C0/C1 controls (grammar inert_spec, outside the known-finding class kf_c20) emits no function from any parser in ground state and ends in ground state; KF-C20-1 proved real (witness CSI > ! p); exhaustive sweep validates the tables; terminal level: the whole terminal record is Leibniz-equal afterwards and feed_str reports what it reports for the empty string (C20_terminal, C20_no_changed_line), also from every parser state for sequences starting with ESC / C1",
 "C01": "Coq theorems: for every size >= 1x1, limit and sequence of feed / flush / resize operations the model never reaches a panic site and never exhausts loop fuel (C01_no_panic, by the inductive invariant Inv); dump(), view(), line(n<rows) never panic; parser total. The timing clause is PARTIAL by nature: loop bounds are fuel measures in the model, wall-clock is a watchdog on a model-free stress run of the implementation (overflow checks on)",
 "C02": "Coq theorems: Inv is inductive for feed / flush / resize and holds initially; the executable geometry statement holds_C02_state follows from Inv for every reachable state; holds_C02_call (changed-line indices strictly increasing < rows, size as requested) for every call; size() stable across feeds (C02_size_stable)",
 "C03": "Coq theorems over the Parser::feed table AND the dispatch tables regenerated from the source on every run: transition table = Williams diagram + 4 deviations for all 14 states x all of N; CSI / ESC / C0-C1 / mode dispatch = hand-written function table (Spec/Functions.v) for every marker, final byte and parameter array; one parser step = table transition + action, never panics; ESC Fe = C1; memorylessness; digit accumulation mod 2^16. Translator validated by an exhaustive sweep of the implementation; the function table, memorylessness and SGR decoding are also evaluated on the implementation; parameters as written end to end from the characters, with private markers / intermediates, for every text (Proofs/ParamsWritten.v, ParamsPrefixed.v)",
 "C04": "Coq theorems: from every state satisfying the invariant, Print and REP yield exactly the specified screen (spec_print / spec_rep: deferred wrap with region scroll, insert mode, last-column rule, charset table), nothing else changes, invariant re-established; the executable statement holds_C04 is a theorem of the model and is evaluated on every implementation step; the soft-wrap mark of the row left is proved outside the class kf1_C04 and proved LOST on all of it (known finding KF-C04-1: wrap on a bottom margin above the last row); semantics of SM/RM 4, DECAWM pinned",
 "C05": "Coq theorems: for EVERY cursor command of the property (incl. tab searches) and every state satisfying the invariant the model function equals spec_cursor - only cursor fields change (margins/origin for DECSTBM/DECOM), no cell changes; holds_C05 is a theorem of the model and is evaluated on every implementation step",
 "C06": "Coq theorems: LF/IND/NEL/RI on the margins, SU, SD, IL, DL equal the view-level specification spec_scroll (range shift, blanks in the pen, rows outside unchanged, exactly the pushed rows appended to the scrollback in order) from every state satisfying the invariant; Buffer::scroll_up/down characterised for all three code paths",
 "C07": "Coq theorems: ED/EL/ECH/ICH/DCH/DECALN equal the closed-form specification spec_edit from every state satisfying the invariant; holds_C07 is a theorem of the model and is evaluated on every implementation step",
 "C08": "Coq theorems: SGR decoder = grammar of the property for every parameter array; each op acts on the public pen observations as specified (arbitrary attribute byte); pen = left fold; SGR changes nothing but the pen; no other function changes the pen (holds_C08 for every step); cells carry the pen by C04/C06/C07",
 "C10": "Coq theorems: reflow preserves the list of logical lines exactly; Buffer::resize keeps the cursor in the same logical line and on the same character; the full executable statement resize_preserves / holds_C10 holds for every Resize step from every state satisfying the invariant (all sizes, cursors incl. wrap-pending)",
 "C13": "Coq theorems: the lazy-trim invariant is preserved by every operation and the end-of-call trim establishes the bound: after every feed_str / resize of every session holds_C13 (<= rows + L + L/10 lines, = rows for L = 0 and on the alternate screen)",
 "C17": "Coq theorems: holds_C17 (per-screen saved-context bookkeeping for all save/restore spellings, DECSTR, RIS, every other function) and holds_C17_resize for every step from every state satisfying the invariant; run level: save, any run without save / DECSTR on that screen and without RIS (screen switches, other-screen saves, resizes allowed), restore gives exactly the saved column, row, pen, origin and auto-wrap modes (C17_round_trip*); per-screen contexts across every switch (C17_switch); DECSTR resets the saved context (known finding KF-C17-1, DEC STD 070 behaviour)",
 "C18": "Coq theorems: default stops, set/unset, n-th next/previous stop, contract/expand (incl. the first new column when a multiple of 8), fresh terminals keep the defaults across any resize; holds_C18 / holds_C18_resize for every step from every state satisfying the invariant",
 "C19": "Coq theorems: ESC c fed to ANY state satisfying the invariant (any parser state, alternate screen, any modes) yields syntactically the state of a fresh Vt of the same size and limit - parser, terminal, buffers, dirty flags - hence identical behaviour on all future input; the regenerated hard_reset list covers every field (incl. cursor-key mode, fix D3)",
}
TECH = "machine-checked proof in Coq (model regenerated/hand-written, tied by translator + step-wise correspondence and executable statements run on the implementation)"
NOT_YET = {
 "C09": "theorem not yet proved (the executable statement holds_C09 and the correspondence already run in ./check C09); claimed once a theorem is Qed",
 "C11": "theorem not yet proved (dump/restore oracle holds_C11 with the known-finding classifiers already runs in ./check C11); claimed once a theorem is Qed",
 "C16": "theorem not yet proved (holds_C16 already runs in ./check C16); claimed once a theorem is Qed",
}
claimed = sorted(p for p in TEXT if os.path.exists(os.path.join(ROOT, "coq", "Properties", p + ".v")))
m = {
 "version": 1,
 "setup_cmd": "./setup.sh",
 "hooks": {"guard": "avt_verif",
           "enable": "RUSTFLAGS=\"--cfg avt_verif\" (set in harness/.cargo/config.toml; harness crate has a path dependency on /repo)",
           "baseline_off_cmd": "cd /repo && cargo test --workspace --no-fail-fast --offline",
           "source_commits": ["0c915cb"], "add_only": True},
 "engines": [{"name": "coq-proof+correspondence", "path": "check", "serves_properties": claimed,
              "kind_free_text": "Coq 8.16 theorems over a model (tables regenerated from the source by translate/avt2coq.py, the rest hand-written), tied to the code by the translator, an exhaustive parser sweep and a step-wise correspondence (extracted OCaml model run from the implementation's own pre-states); every theorem's conclusion is an executable statement also evaluated on the implementation"}],
 "checks": [],
 "notes": "See DESIGN.md. Known findings: KNOWN_FINDINGS.json. Seeded changes used to test the checks: seeded/.",
 "not_applicable": [],
}
for p in claimed:
    m["checks"].append({
        "property_id": p,
        "quick_cmd": "./check %s --tier quick" % p,
        "thorough_cmd": "./check %s --tier thorough" % p,
        "evidence_file": "/verif/evidence/%s.json" % p,
        "replay_cmd_template": "./check %s --replay {path}" % p,
        "engine": "coq-proof+correspondence",
        "level_claimed": {"category": "proof", "text": TEXT[p], "design_ref": "DESIGN.md section 7 (%s) and section 13 (status)" % p},
        "level_note": "trusted: Coq 8.16.1 kernel + vm_compute; translator (validated); ExtrOcamlBasic extraction; Rust harness + cfg(avt_verif) state hook; every function of the crate except the iterator Chunks::next is regenerated from the source on every run and tied to the hand-written model by theorems (Cxx_source_*), in addition to the step-wise correspondence (testing); specs in coq/Spec are the formal reading of the property",
        "technique": TECH,
    })
for p in sorted(TITLES):
    if p not in claimed:
        m["not_applicable"].append({"property_id": p, "reason": NOT_YET.get(p, "theorem not yet proved (the executable statement and the correspondence already run in ./check %s); claimed once a theorem is Qed" % p)})
json.dump(m, open(os.path.join(ROOT, "MANIFEST.json"), "w"), indent=1)
print("claimed:", claimed)
