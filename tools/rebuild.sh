#!/bin/bash
# developer tool: rebuild coq + extraction + driver (+ harness)
set -e
cd /verif/coq && make -j16 2>&1 | grep -v "^COQ" || true
cd /verif/driver && cp ../coq/model.ml ../coq/model.mli . && ocamlfind ocamlopt -package unix -linkpkg -O2 -w -a model.mli model.ml conv.ml oracles_glue.ml main.ml -o avt-driver || { echo "DRIVER BUILD FAILED"; exit 1; }
cd /verif/harness && cargo build --release --offline 2>&1 | grep -E "^error" -A8 || true
