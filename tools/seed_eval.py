#!/usr/bin/env python3
"""usage: seed_eval.py <agent out dir> [--props C01,C02,...] [--only id,id] [--confirm-cache DIR]
For each <out>/<Cxx_k>/ with patch.diff + demo.rs + README.md:
  1. confirm in a scratch worktree: suite green with the change, demo red with / green without
  2. apply to /repo, run ./check for the target property (and the extra ones), undo
  3. store /verif/seeded/<id>/{patch.diff,demo.rs,README.md,meta.json}
"""
import json, os, re, shutil, subprocess, sys, time
ROOT = "/verif"

def sh(cmd, timeout=1800):
    p = subprocess.run(cmd, shell=True, stdout=subprocess.PIPE, stderr=subprocess.STDOUT, text=True, timeout=timeout)
    return p.returncode, p.stdout

def main():
    out = sys.argv[1]
    extra = []
    if "--props" in sys.argv:
        extra = sys.argv[sys.argv.index("--props") + 1].split(",")
    only = None
    if "--only" in sys.argv:
        only = sys.argv[sys.argv.index("--only") + 1].split(",")
    for d in sorted(os.listdir(out)):
        full = os.path.join(out, d)
        if not (os.path.isdir(full) and os.path.exists(os.path.join(full, "patch.diff"))):
            continue
        if only and d not in only:
            continue
        m = re.match(r"(C\d+)_(\d+)", d)
        if not m:
            continue
        prop = m.group(1)
        meta = {"id": d, "property": prop, "evaluated_at": time.strftime("%Y-%m-%d %H:%M:%S")}
        cache = None
        if "--confirm-cache" in sys.argv:
            cache = os.path.join(sys.argv[sys.argv.index("--confirm-cache") + 1], d + ".txt")
        if cache and os.path.exists(cache):
            # confirmation already run (tools/confirm_seed.sh, in parallel, each in its own scratch worktree)
            code, o = 0, open(cache).read()
        else:
            code, o = sh("%s/tools/confirm_seed.sh %s %s" % (ROOT, full, d))
        meta["confirm"] = {l.split(":", 1)[0]: l.split(":", 1)[1].strip() for l in o.strip().splitlines() if ":" in l and l.startswith(("demo_", "suite_"))}
        c = meta["confirm"]
        ok = ("ok." in c.get("demo_without_change", "") and "FAILED" in c.get("demo_with_change", "")
              and "FAILED" not in c.get("suite_with_change", "") and "error" not in c.get("suite_with_change", "") and "ok." in c.get("suite_with_change", ""))
        meta["confirmed"] = ok
        print("==", d, "confirmed" if ok else "NOT CONFIRMED", flush=True)
        if not ok:
            print(o[-600:])
            continue
        props = [prop] + [p for p in extra if p != prop]
        code, o = sh("%s/tools/try_seed.sh %s/patch.diff %s" % (ROOT, full, " ".join(props)))
        res = {}
        for l in o.strip().splitlines():
            mm = re.match(r"(C\d+): (.*)", l)
            if mm:
                res[mm.group(1)] = mm.group(2).strip()
        meta["checks"] = res
        meta["detected_by"] = [p for p, r in res.items() if r.startswith("VIOLATION")]
        meta["detected_with_input_by"] = [p for p, r in res.items() if r.startswith("VIOLATION") and "no-failing-input-found" not in r]
        print("   ", json.dumps(res)[:600], flush=True)
        readme = open(os.path.join(full, "README.md")).read() if os.path.exists(os.path.join(full, "README.md")) else ""
        meta["needs_to_manifest"] = readme[:1500]
        meta["ran"] = ["tools/confirm_seed.sh (scratch worktree: cargo test --offline with the change; demo with/without)",
                       "tools/try_seed.sh (git -C /repo apply; ./check <prop>; git -C /repo checkout -- .)"]
        dst = os.path.join(ROOT, "seeded", d)
        os.makedirs(dst, exist_ok=True)
        for f in ("patch.diff", "demo.rs", "README.md"):
            if os.path.exists(os.path.join(full, f)) and os.path.abspath(full) != os.path.abspath(dst):
                shutil.copyfile(os.path.join(full, f), os.path.join(dst, f))
        json.dump(meta, open(os.path.join(dst, "meta.json"), "w"), indent=1)

main()
