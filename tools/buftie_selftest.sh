#!/bin/bash
# Self-test of the slice-level tie (translate/buf2coq.py -> Gen/BufFns.v -> Proofs/BufTie.v).
# For the unmutated snapshot and for hand-made single-token mutations of a COPY of the sources placed
# under $MUT, run the translator into a scratch Gen dir and compile Proofs/BufTie.v against the scratch
# BufFns.v.  Expected: the baseline compiles, every semantic mutant breaks a proof obligation of
# BufTie.v, an untranslatable edit gives TRANSLATE-ERROR (exit 3: the unit fails alone; 2: fatal).  The cases run in parallel.
# usage: tools/buftie_selftest.sh        (needs the main tree built: coq/Proofs/ListLemmas.vo)
ROOT=$(cd "$(dirname "$0")/.." && pwd)
COQ=$ROOT/coq
MUT=${MUT:-/tmp/pw/tb/mut}
REPO_SRC=${REPO_SRC:-/tmp/pw/src0/src}
JOBS=${JOBS:-8}
mkdir -p "$MUT"
IMPORT='From Avt Require Import Model.Prims Proofs.Inv Proofs.ListLemmas Gen.BufFns.'

run_case() {  # name expected(ok|broken|terr) file old new      (writes $MUT/name/report)
  local name=$1 expect=$2 file=$3 old=$4 new=$5 d=$MUT/$1
  rm -rf "$d"; mkdir -p "$d/gen" "$d/coq"
  cp -r "$REPO_SRC" "$d/src"
  {
  if [ -n "$old" ]; then
    python3 - "$d/src/$file" "$old" "$new" <<'PY' || { echo "[$name] MUTATION DID NOT APPLY"; echo "[$name] FAIL"; exit; }
import sys
p, old, new = sys.argv[1:4]
s = open(p, encoding="utf-8").read()
if s.count(old) != 1:
    sys.exit("pattern occurs %d times" % s.count(old))
open(p, "w", encoding="utf-8").write(s.replace(old, new))
PY
    diff "$REPO_SRC/$file" "$d/src/$file" | grep '^[<>]' | sed "s|^|[$name]   $file: |"
  fi
  local t0=$(date +%s) got
  python3 "$ROOT/translate/avt2coq.py" "$d/src" "$d/gen" > "$d/translate.log" 2>&1
  if [ $? -ne 0 ]; then
    got=terr; sed "s/^/[$name]   /" "$d/translate.log"
  else
    # compile the scratch BufFns.v under its own logical name and BufTie.v against it
    cp "$d/gen/BufFns.v" "$d/coq/BufFns.v"
    sed "s/^$IMPORT\$/${IMPORT% Gen.BufFns.}. From AvtMut Require Import BufFns./" "$COQ/Proofs/BufTie.v" > "$d/coq/BufTie.v"
    grep -q "From AvtMut Require Import BufFns" "$d/coq/BufTie.v" || { echo "[$name] cannot redirect the import"; echo "[$name] FAIL"; exit; }
    ( cd "$d/coq" && timeout 300 coqc -w -notation-overridden,-ambiguous-paths -Q "$COQ" Avt -Q . AvtMut BufFns.v > fns.log 2>&1 \
      && timeout 900 coqc -w -notation-overridden,-ambiguous-paths -Q "$COQ" Avt -Q . AvtMut BufTie.v > tie.log 2>&1 )
    if [ $? -eq 0 ]; then
      got=ok; echo "[$name]   BufTie.v compiles ($(grep -c 'Closed under the global context' "$d/coq/tie.log") theorems closed under the global context)"
    else
      got=broken
      cat "$d/coq/fns.log" "$d/coq/tie.log" 2>/dev/null | grep -A6 '^File' | head -8 | cut -c1-160 | sed "s/^/[$name]   /"
      ln=$(grep -o 'BufTie.v", line [0-9]*' "$d/coq/tie.log" | head -1 | grep -o '[0-9]*$')
      [ -n "$ln" ] && echo "[$name]   failing obligation: $(head -n "$ln" "$d/coq/BufTie.v" | grep -E '^(Lemma|Theorem|Example) ' | tail -1 | cut -c1-110)"
    fi
  fi
  local verdict=PASS
  [ "$got" = "$expect" ] || verdict=FAIL
  echo "[$name] expected=$expect got=$got  ($(( $(date +%s) - t0 ))s)  $verdict"
  } > "$d/report" 2>&1
}

CASES=()
case_() { CASES+=("$1"); while [ "$(jobs -rp | wc -l)" -ge "$JOBS" ]; do sleep 0.5; done; run_case "$@" & }

case_ baseline ok "" "" ""
case_ m01_line_insert_rotate broken line.rs \
  'self.cells[col..].rotate_right(n);' 'self.cells[col..].rotate_left(n);'
case_ m02_buf_insert_no_clamp broken buffer.rs \
  'n = n.min(self.cols - col);
        self[row].insert(col, n, cell);' 'n = n;
        self[row].insert(col, n, cell);'
case_ m03_scroll_up_clear_range broken buffer.rs \
  'self.clear((end - n)..end, pen);' 'self.clear((end)..end, pen);'
case_ m04_trim_scrollback_ge broken buffer.rs \
  'if scrollback_size > limit.hard {' 'if scrollback_size >= limit.hard {'
case_ m05_tabs_contract_le broken tabs.rs \
  '|t| t < &pos' '|t| t <= &pos'
case_ m06_tabs_expand_always_round broken tabs.rs \
  'if start % 8 != 0 {' 'if true {'
case_ m07_view_mut_offset broken buffer.rs \
  '&mut self.lines[len - self.rows..]' '&mut self.lines[len - self.rows + 1..]'
case_ m08_erase_above_rows broken buffer.rs \
  'self.clear(0..row, pen);' 'self.clear(0..row + 1, pen);'
case_ m09_erase_nextchars_wrap broken buffer.rs \
  'let clear_wrap = end == self.cols;' 'let clear_wrap = end != self.cols;'
case_ m10_dirty_clear_true broken terminal/dirty_lines.rs \
  'self.0[..].fill(false);' 'self.0[..].fill(true);'
case_ m11_scroll_down_wrapped broken buffer.rs \
  'self[end - 1].wrapped = false;' 'self[end - 1].wrapped = true;'
case_ m12_line_delete_start broken line.rs \
  'let start = self.cells.len() - n;' 'let start = self.cells.len() + n;'
case_ m13_trim_excess_hard broken buffer.rs \
  'let excess = scrollback_size - limit.soft;' 'let excess = scrollback_size - limit.hard;'
case_ m14_line_extend_le broken line.rs \
  'if needed < other.len() {' 'if needed <= other.len() {'
case_ m15_scroll_up_insert_index broken buffer.rs \
  'let index = self.lines.len() - self.rows + range.end;' 'let index = self.lines.len() - self.rows + range.start;'
case_ m16_tabs_set_ok broken tabs.rs \
  'if let Err(index) = self.0.binary_search(&pos) {' 'if let Ok(index) = self.0.binary_search(&pos) {'
case_ m17_buffer_new_hard broken buffer.rs \
  'hard: l + l / 10,' 'hard: l + l / 5,'
case_ t1_untranslatable terr line.rs \
  'self.cells[col] = cell;' 'while self.cells.len() <= col { self.cells.push(cell); }'
wait

fail=0
for c in "${CASES[@]}"; do
  cat "$MUT/$c/report"
  grep -q "PASS$" "$MUT/$c/report" || fail=1
done
echo
[ $fail -eq 0 ] && echo "buftie self-test: ALL AS EXPECTED" || echo "buftie self-test: UNEXPECTED RESULTS"
exit $fail
