//! avt-harness: drives the real avt crate (built from /repo with --cfg avt_verif) and writes
//! traces for the OCaml driver (extracted Coq model + oracles).
//!
//! trace format (one record per line):
//!   CASE <id> <cols> <rows> <limit|-1>
//!   S <state tokens>                       state (Vt::verif_state)
//!   C <k> <cp>*k                           characters fed with Vt::feed since the last checkpoint
//!   FN <function tokens | ->               function emitted by the last of them (shadow parser)
//!   L                                      Vt::feed_str("")
//!   R <c> <r>                              Vt::resize(c, r)
//!   O <n> <row>*n <m> <LINE>*m             Changes { lines, scrollback } of the L / R call
//!   PANIC                                  the call panicked (case ends)
//!   END
mod gen;
mod rel;

use avt::parser::{
    AnsiMode, CtcOp, DecMode, EdScope, ElScope, Function, Parser, SgrOp, TbcScope, XtwinopsOp,
};
use avt::{Color, Line, Vt};
use gen::*;
use std::fmt::Write as _;
use std::io::Write;
use std::panic::{catch_unwind, AssertUnwindSafe};

fn color_code(c: &Color) -> i64 {
    match c {
        Color::Indexed(i) => *i as i64,
        Color::RGB(c) => 0x1000000 + ((c.r as i64) << 16) + ((c.g as i64) << 8) + (c.b as i64),
    }
}

fn fmt_function(f: &Function) -> String {
    use Function::*;
    match f {
        Bs => "Bs".into(),
        Cbt(n) => format!("Cbt {n}"),
        Cha(n) => format!("Cha {n}"),
        Cht(n) => format!("Cht {n}"),
        Cnl(n) => format!("Cnl {n}"),
        Cpl(n) => format!("Cpl {n}"),
        Cr => "Cr".into(),
        Ctc(op) => format!(
            "Ctc {}",
            match op {
                CtcOp::Set => "Set",
                CtcOp::ClearCurrentColumn => "ClearCurrentColumn",
                CtcOp::ClearAll => "ClearAll",
            }
        ),
        Cub(n) => format!("Cub {n}"),
        Cud(n) => format!("Cud {n}"),
        Cuf(n) => format!("Cuf {n}"),
        Cup(r, c) => format!("Cup {r} {c}"),
        Cuu(n) => format!("Cuu {n}"),
        Dch(n) => format!("Dch {n}"),
        Decaln => "Decaln".into(),
        Decrc => "Decrc".into(),
        Decrst(ms) => format!("Decrst {}{}", ms.len(), fmt_dec_modes(ms)),
        Decsc => "Decsc".into(),
        Decset(ms) => format!("Decset {}{}", ms.len(), fmt_dec_modes(ms)),
        Decstbm(t, b) => format!("Decstbm {t} {b}"),
        Decstr => "Decstr".into(),
        Dl(n) => format!("Dl {n}"),
        Ech(n) => format!("Ech {n}"),
        Ed(s) => format!(
            "Ed {}",
            match s {
                EdScope::Below => "Below",
                EdScope::Above => "Above",
                EdScope::All => "All",
                EdScope::SavedLines => "SavedLines",
            }
        ),
        El(s) => format!(
            "El {}",
            match s {
                ElScope::ToRight => "ToRight",
                ElScope::ToLeft => "ToLeft",
                ElScope::All => "All",
            }
        ),
        G1d4(cs) => format!("G1d4 {:?}", cs),
        Gzd4(cs) => format!("Gzd4 {:?}", cs),
        Ht => "Ht".into(),
        Hts => "Hts".into(),
        Ich(n) => format!("Ich {n}"),
        Il(n) => format!("Il {n}"),
        Lf => "Lf".into(),
        Nel => "Nel".into(),
        Print(c) => format!("Print {}", *c as u32),
        Rep(n) => format!("Rep {n}"),
        Ri => "Ri".into(),
        Ris => "Ris".into(),
        Rm(ms) => format!("Rm {}{}", ms.len(), fmt_ansi_modes(ms)),
        Scorc => "Scorc".into(),
        Scosc => "Scosc".into(),
        Sd(n) => format!("Sd {n}"),
        Sgr(ops) => {
            let mut s = format!("Sgr {}", ops.len());
            for op in ops {
                use SgrOp::*;
                match op {
                    SetForegroundColor(c) => write!(s, " SetForegroundColor {}", color_code(c)).unwrap(),
                    SetBackgroundColor(c) => write!(s, " SetBackgroundColor {}", color_code(c)).unwrap(),
                    other => write!(s, " {:?}", other).unwrap(),
                }
            }
            s
        }
        Si => "Si".into(),
        Sm(ms) => format!("Sm {}{}", ms.len(), fmt_ansi_modes(ms)),
        So => "So".into(),
        Su(n) => format!("Su {n}"),
        Tbc(s) => format!(
            "Tbc {}",
            match s {
                TbcScope::CurrentColumn => "CurrentColumn",
                TbcScope::All => "All",
            }
        ),
        Vpa(n) => format!("Vpa {n}"),
        Vpr(n) => format!("Vpr {n}"),
        Xtwinops(XtwinopsOp::Resize(c, r)) => format!("Xtwinops {c} {r}"),
    }
}

fn fmt_dec_modes(ms: &[DecMode]) -> String {
    let mut s = String::new();
    for m in ms {
        write!(s, " {:?}", m).unwrap();
    }
    s
}

fn fmt_ansi_modes(ms: &[AnsiMode]) -> String {
    let mut s = String::new();
    for m in ms {
        write!(s, " {:?}", m).unwrap();
    }
    s
}

/// a Line through the public accessors, in the same run-length format as the hook
pub fn fmt_line(line: &Line, wrapped: bool, out: &mut String) {
    let mut runs: Vec<(usize, avt::Cell)> = Vec::new();
    for cell in line.cells() {
        match runs.last_mut() {
            Some((n, c)) if c == cell => *n += 1,
            _ => runs.push((1, *cell)),
        }
    }
    write!(out, "{} {} ", wrapped as u8, runs.len()).unwrap();
    for (n, cell) in runs {
        let p = cell.pen();
        let mut attrs = 0;
        if p.is_italic() {
            attrs |= 1;
        }
        if p.is_underline() {
            attrs |= 2;
        }
        if p.is_strikethrough() {
            attrs |= 4;
        }
        if p.is_blink() {
            attrs |= 8;
        }
        if p.is_inverse() {
            attrs |= 16;
        }
        let intensity = if p.is_bold() {
            1
        } else if p.is_faint() {
            2
        } else {
            0
        };
        write!(
            out,
            "{} {} {} {} {} {} ",
            n,
            cell.char() as u32,
            p.foreground().map_or(-1, |c| color_code(&c)),
            p.background().map_or(-1, |c| color_code(&c)),
            intensity,
            attrs
        )
        .unwrap();
    }
}

/// wrapped flag of a public Line: only observable through Debug ('⏎' suffix)
pub fn line_wrapped(line: &Line) -> bool {
    format!("{:?}", line).ends_with("⏎\"")
}

pub struct Tracer<W: Write> {
    pub w: W,
    pub steps: usize,
    pub panics: usize,
    pub truncated: usize,
    pub max_lines: usize,
}

impl<W: Write> Tracer<W> {
    fn state(&mut self, vt: &Vt) {
        writeln!(self.w, "S {}", vt.verif_state()).unwrap();
    }

    /// run one case step-wise; returns false if it panicked
    pub fn run_case(&mut self, id: usize, case: &Case, queries: bool) -> bool {
        writeln!(
            self.w,
            "CASE {} {} {} {}",
            id,
            case.cols,
            case.rows,
            case.limit.map_or(-1, |l| l as i64)
        )
        .unwrap();
        let mut b = Vt::builder();
        b.size(case.cols, case.rows);
        if let Some(l) = case.limit {
            b.scrollback_limit(l);
        }
        let mut vt = b.build();
        let mut shadow = Parser::new();
        self.state(&vt);
        let mut pending: Vec<char> = Vec::new();
        for (oi, op) in case.ops.iter().enumerate() {
            // a string delimited by two marks: announce the whole span (C20 claims are made on whole sequences)
            if let Op::Mark = op {
                if let (Some(Op::Str(s)), Some(Op::Mark)) = (case.ops.get(oi + 1), case.ops.get(oi + 2)) {
                    if pending.is_empty() {
                        let cs: Vec<char> = s.chars().collect();
                        let mut l = format!("MB {}", cs.len());
                        for c in &cs {
                            write!(l, " {}", *c as u32).unwrap();
                        }
                        writeln!(self.w, "{}", l).unwrap();
                    }
                }
            }
            match op {
                Op::Str(s) => {
                    for ch in s.chars() {
                        pending.push(ch);
                        let f = shadow.feed(ch);
                        let r = catch_unwind(AssertUnwindSafe(|| vt.feed(ch)));
                        if r.is_err() {
                            self.chars(&pending);
                            writeln!(self.w, "FN {}", f.as_ref().map_or("-".to_string(), fmt_function)).unwrap();
                            writeln!(self.w, "PANIC\nEND").unwrap();
                            self.panics += 1;
                            return false;
                        }
                        if let Some(f) = f {
                            self.chars(&pending);
                            pending.clear();
                            writeln!(self.w, "FN {}", fmt_function(&f)).unwrap();
                            self.state(&vt);
                            self.steps += 1;
                            if vt.lines().len() > self.max_lines {
                                // keep traces small: a huge scrollback ends the case
                                self.truncated += 1;
                                writeln!(self.w, "END").unwrap();
                                return true;
                            }
                        }
                    }
                }
                Op::Mark => {
                    if !pending.is_empty() {
                        self.chars(&pending);
                        pending.clear();
                        writeln!(self.w, "FN -").unwrap();
                        self.state(&vt);
                        self.steps += 1;
                    }
                }
                Op::Flush | Op::Resize(..) => {
                    if !pending.is_empty() {
                        self.chars(&pending);
                        pending.clear();
                        writeln!(self.w, "FN -").unwrap();
                        self.state(&vt);
                        self.steps += 1;
                    }
                    match op {
                        Op::Flush => writeln!(self.w, "L").unwrap(),
                        Op::Resize(c, r) => writeln!(self.w, "R {} {}", c, r).unwrap(),
                        _ => unreachable!(),
                    }
                    let r = catch_unwind(AssertUnwindSafe(|| {
                        let changes = match op {
                            Op::Flush => vt.feed_str(""),
                            Op::Resize(c, r) => vt.resize(*c, *r),
                            _ => unreachable!(),
                        };
                        let mut o = format!("O {} ", changes.lines.len());
                        for l in &changes.lines {
                            write!(o, "{} ", l).unwrap();
                        }
                        let drained: Vec<Line> = changes.scrollback.collect();
                        write!(o, "{} ", drained.len()).unwrap();
                        for l in &drained {
                            fmt_line(l, line_wrapped(l), &mut o);
                        }
                        o
                    }));
                    match r {
                        Ok(o) => {
                            writeln!(self.w, "{}", o).unwrap();
                            self.state(&vt);
                            self.steps += 1;
                        }
                        Err(_) => {
                            writeln!(self.w, "PANIC\nEND").unwrap();
                            self.panics += 1;
                            return false;
                        }
                    }
                    if queries {
                        self.queries(&vt);
                    }
                }
            }
        }
        if !pending.is_empty() {
            self.chars(&pending);
            writeln!(self.w, "FN -").unwrap();
            self.state(&vt);
            self.steps += 1;
        }
        if queries {
            self.queries(&vt);
        }
        writeln!(self.w, "END").unwrap();
        true
    }

    fn chars(&mut self, cs: &[char]) {
        let mut s = format!("C {}", cs.len());
        for c in cs {
            write!(s, " {}", *c as u32).unwrap();
        }
        writeln!(self.w, "{}", s).unwrap();
    }

    /// read-only queries compared with the model: dump(), text(), view()/lines()/cursor()/size()
    fn queries(&mut self, vt: &Vt) {
        let r = catch_unwind(AssertUnwindSafe(|| {
            let mut s = String::new();
            let d = vt.dump();
            write!(s, "QD {}", d.chars().count()).unwrap();
            for c in d.chars() {
                write!(s, " {}", c as u32).unwrap();
            }
            s.push('\n');
            let t = vt.text();
            write!(s, "QT {}", t.len()).unwrap();
            for l in &t {
                write!(s, " {}", l.chars().count()).unwrap();
                for c in l.chars() {
                    write!(s, " {}", c as u32).unwrap();
                }
            }
            s.push('\n');
            let (c, r) = vt.size();
            let cur = vt.cursor();
            write!(
                s,
                "QG {} {} {} {} {} {} {} {} ",
                c,
                r,
                cur.col,
                cur.row,
                cur.visible as u8,
                vt.cursor_key_app_mode() as u8,
                vt.view().len(),
                vt.lines().len()
            )
            .unwrap();
            for l in vt.view() {
                fmt_line(l, line_wrapped(l), &mut s);
            }
            s
        }));
        match r {
            Ok(s) => writeln!(self.w, "{}", s).unwrap(),
            Err(_) => {
                writeln!(self.w, "QPANIC").unwrap();
                self.panics += 1;
            }
        }
    }
}

/// a case in the replay format: "cols rows limit" then one op per line
pub fn write_case<W: Write>(w: &mut W, case: &Case, run_seed: u64) {
    writeln!(w, "{} {} {} {}", case.cols, case.rows, case.limit.map_or(-1, |l| l as i64), run_seed).unwrap();
    for op in &case.ops {
        match op {
            Op::Str(s) => {
                let mut l = format!("S {}", s.chars().count());
                for c in s.chars() {
                    write!(l, " {}", c as u32).unwrap();
                }
                writeln!(w, "{}", l).unwrap();
            }
            Op::Flush => writeln!(w, "L").unwrap(),
            Op::Mark => writeln!(w, "M").unwrap(),
            Op::Resize(c, r) => writeln!(w, "R {} {}", c, r).unwrap(),
        }
    }
}

fn run_seed(seed: u64, i: usize) -> u64 {
    seed.wrapping_mul(7_919).wrapping_add(i as u64).wrapping_mul(0x2545F4914F6CDD1D) | 1
}

fn text_case(rng: &mut Rng) -> Case {
    let cols = *rng.pick(&[1usize, 1, 2, 2, 3, 3, 4, 5, 7, 8, 10, 20, 80]);
    let rows = *rng.pick(&[1usize, 1, 2, 3, 4, 6, 24]);
    let text = rel::gen_text(rng, cols);
    Case { cols, rows, limit: None, ops: vec![Op::Str(text)] }
}

fn run_rel<W: Write>(w: &mut W, mode: &str, i: usize, case: &Case, run_rng: &mut Rng, prof: &Profile, at_end: bool) {
    match mode {
        "text" => {
            let mut text = String::new();
            for op in &case.ops {
                if let Op::Str(s) = op {
                    text.push_str(s);
                }
            }
            rel::run_text(w, i, run_rng, Some((case.cols, case.rows, text)));
        }
        "chunk" => rel::run_chunk(w, i, run_rng, case),
        "stream" => rel::run_stream(w, i, run_rng, case),
        "dump" => rel::run_dump(w, i, run_rng, case, prof, at_end),
        _ => unreachable!(),
    }
}


// ---- Vt-level sweep over every Unicode scalar value ----
pub const VS_COLS: usize = 4;
pub const VS_ROWS: usize = 2;
pub const VS_PRES: [&str; 10] = [
    "",
    "\x1b(0",
    "\x1b)0\x0e",
    "abcd",
    "\x1b[4habc\r",
    "\x1b[",
    "\x1b[1;2",
    "\x1b]0;x",
    "\x1bPq",
    "\x1b[?7labcd",
];

fn vs_case(index: usize) -> Case {
    let k = index / 0x110000;
    let cp = (index % 0x110000) as u32;
    let c = char::from_u32(cp).unwrap_or('\u{fffd}');
    let mut ops = Vec::new();
    if !VS_PRES[k].is_empty() {
        ops.push(Op::Str(VS_PRES[k].to_string()));
        ops.push(Op::Flush);
    }
    ops.push(Op::Str(c.to_string()));
    ops.push(Op::Flush);
    // and what follows: a printable character and a line feed show where the cursor / modes really are
    ops.push(Op::Str("Z\n".to_string()));
    ops.push(Op::Flush);
    Case { cols: VS_COLS, rows: VS_ROWS, limit: None, ops }
}

fn c09_printable(c: char) -> bool {
    let cp = c as u32;
    (0x20..=0x7f).contains(&cp) || cp >= 0xa0
}

/// the text of a sweep case when it consists of printable characters only (prefixes "" and "abcd")
fn vs_text(index: usize) -> Option<String> {
    let k = index / 0x110000;
    let c = char::from_u32((index % 0x110000) as u32)?;
    if (k == 0 || k == 3) && c09_printable(c) {
        Some(format!("{}{}", VS_PRES[k], c))
    } else {
        None
    }
}

fn vs_sig(vt: &Vt, c: char) -> String {
    let d = vt.dump();
    let mut s = if (c as u32) >= 0x100 { d.replace(c, "\u{fffd}") } else { d };
    write!(s, "|{}|", vt.lines().len()).unwrap();
    let t = vt.text().join("\n");
    if (c as u32) >= 0x100 {
        s.push_str(&t.replace(c, "\u{fffd}"));
    } else {
        s.push_str(&t);
    }
    s
}

/// the three ways of feeding pre ++ [c]: 0 = one feed_str, 1 = two feed_str calls, 2 = feed() per character
fn vs_eval(pre: &str, c: char, way: u8) -> String {
    let r = catch_unwind(AssertUnwindSafe(|| {
        let mut b = Vt::builder();
        b.size(VS_COLS, VS_ROWS);
        let mut vt = b.build();
        match way {
            0 => {
                let mut s = String::with_capacity(pre.len() + 4);
                s.push_str(pre);
                s.push(c);
                vt.feed_str(&s);
            }
            1 => {
                vt.feed_str(pre);
                let mut t = [0u8; 4];
                vt.feed_str(c.encode_utf8(&mut t));
            }
            _ => {
                for ch in pre.chars() {
                    vt.feed(ch);
                }
                vt.feed(c);
            }
        }
        vs_sig(&vt, c)
    }));
    r.unwrap_or_else(|_| "PANIC".to_string())
}

fn codes(s: &str) -> String {
    s.chars().map(|c| (c as u32).to_string()).collect::<Vec<_>>().join(",")
}


/// replay of a sweep case: the three ways of feeding the case's text, decided on the implementation alone
fn vs_ways_of_case(case: &Case) -> Vec<String> {
    let strs: Vec<&str> = case.ops.iter().filter_map(|o| if let Op::Str(s) = o { Some(s.as_str()) } else { None }).collect();
    let all: String = strs.concat();
    let run = |way: u8| -> String {
        catch_unwind(AssertUnwindSafe(|| {
            let mut b = Vt::builder();
            b.size(case.cols, case.rows);
            if let Some(l) = case.limit {
                b.scrollback_limit(l);
            }
            let mut vt = b.build();
            match way {
                0 => {
                    vt.feed_str(&all);
                }
                1 => {
                    for s in &strs {
                        vt.feed_str(s);
                    }
                }
                _ => {
                    for ch in all.chars() {
                        vt.feed(ch);
                    }
                }
            }
            vt.dump()
        }))
        .unwrap_or_else(|_| "PANIC".to_string())
    };
    let (a, b, d) = (run(0), run(1), run(2));
    let mut out = Vec::new();
    if a == "PANIC" || b == "PANIC" || d == "PANIC" {
        out.push(format!("ECHO ORA prop=C01 kind=vsweep.panic input=[{}] one_call={} per_chunk={} per_char={}", codes(&all), a == "PANIC", b == "PANIC", d == "PANIC"));
    }
    if a != b || a != d {
        out.push(format!("ECHO ORA prop=C12 kind=vsweep.chunking input=[{}] differs={}", codes(&all), if a != b { "feed_str-per-chunk" } else { "feed()-per-character" }));
    }
    out
}

fn arg<'a>(args: &'a [String], name: &str) -> Option<&'a str> {
    args.iter().position(|a| a == name).and_then(|i| args.get(i + 1)).map(|s| s.as_str())
}

fn main() {
    std::panic::set_hook(Box::new(|_| {}));
    let args: Vec<String> = std::env::args().collect();
    let mode = args.get(1).map(|s| s.as_str()).unwrap_or("help");
    let stdout = std::io::stdout();
    let out: Box<dyn Write> = match arg(&args, "--out") {
        Some(p) => Box::new(std::io::BufWriter::with_capacity(1 << 20, std::fs::File::create(p).unwrap())),
        None => Box::new(std::io::BufWriter::new(stdout.lock())),
    };
    match mode {
        "trace" => {
            let seed: u64 = arg(&args, "--seed").map_or(1, |s| s.parse().unwrap());
            let cases: usize = arg(&args, "--cases").map_or(100, |s| s.parse().unwrap());
            let first: usize = arg(&args, "--first").map_or(0, |s| s.parse().unwrap());
            let prof = profile(arg(&args, "--profile").unwrap_or("general"));
            let queries = args.iter().any(|a| a == "--queries");
            let mut tr = Tracer { w: out, steps: 0, panics: 0, truncated: 0, max_lines: 150 };
            let mut kinds = 0usize;
            for i in first..first + cases {
                // one PRNG state per case, derived from (seed, case index): replayable in isolation
                let mut rng = if prof.name.starts_with("exhaust") { Rng(i as u64) } else { Rng::new(seed.wrapping_mul(1_000_003).wrapping_add(i as u64)) };
                let case = gen_case(&mut rng, &prof);
                kinds += case.ops.len();
                tr.run_case(i, &case, queries);
            }
            tr.w.flush().unwrap();
            eprintln!(
                "harness: profile={} seed={} cases={} ops={} checkpoints={} panics={} truncated={}",
                prof.name, seed, cases, kinds, tr.steps, tr.panics, tr.truncated
            );
        }
        "replay" => {
            // replay a case file: first line "cols rows limit", then one op per line:
            //   S <k> <cp>*k | L | R c r
            let path = &args[2];
            let txt = std::fs::read_to_string(path).unwrap();
            let mut lines = txt.lines();
            let hdr: Vec<i128> = lines.next().unwrap().split_whitespace().map(|t| t.parse().unwrap()).collect();
            let mut ops = Vec::new();
            for l in lines {
                let t: Vec<&str> = l.split_whitespace().collect();
                match t.first().copied() {
                    Some("S") => ops.push(Op::Str(
                        t[2..].iter().map(|x| char::from_u32(x.parse().unwrap()).unwrap()).collect(),
                    )),
                    Some("L") => ops.push(Op::Flush),
                    Some("M") => ops.push(Op::Mark),
                    Some("R") => ops.push(Op::Resize(t[1].parse().unwrap(), t[2].parse().unwrap())),
                    _ => {}
                }
            }
            let case = Case {
                cols: hdr[0] as usize,
                rows: hdr[1] as usize,
                limit: if hdr[2] < 0 { None } else { Some(hdr[2] as usize) },
                ops,
            };
            let m = arg(&args, "--mode").unwrap_or("trace");
            if m == "trace" || m == "vsweep" {
                let mut tr = Tracer { w: out, steps: 0, panics: 0, truncated: 0, max_lines: 150 };
                if m == "vsweep" {
                    for l in vs_ways_of_case(&case) {
                        writeln!(tr.w, "{}", l).unwrap();
                    }
                }
                tr.run_case(0, &case, true);
                if m == "vsweep" {
                    let strs: Vec<&str> = case.ops.iter().filter_map(|o| if let Op::Str(s) = o { Some(s.as_str()) } else { None }).collect();
                    let body: String = if strs.last() == Some(&"Z\n") { strs[..strs.len() - 1].concat() } else { strs.concat() };
                    if !body.is_empty() && body.chars().all(|c| c09_printable(c) || c == '\r' || c == '\n') {
                        rel::run_text(&mut tr.w, 0, &mut Rng::new(1), Some((case.cols, case.rows, body)));
                    }
                }
                tr.w.flush().unwrap();
            } else {
                let prof = profile(arg(&args, "--profile").unwrap_or("general"));
                let mut run_rng = Rng::new(hdr.get(3).map_or(12345, |x| *x as u64));
                let mut w = out;
                run_rel(&mut w, m, 0, &case, &mut run_rng, &prof, hdr.get(3).map_or(false, |x| *x == 0));
                w.flush().unwrap();
            }
        }


        "text" | "chunk" | "stream" | "dump" => {
            let seed: u64 = arg(&args, "--seed").map_or(1, |s| s.parse().unwrap());
            let cases: usize = arg(&args, "--cases").map_or(100, |s| s.parse().unwrap());
            let first: usize = arg(&args, "--first").map_or(0, |s| s.parse().unwrap());
            let prof = profile(arg(&args, "--profile").unwrap_or("general"));
            let mut w = out;
            for i in first..first + cases {
                let mut rng = Rng::new(seed.wrapping_mul(1_000_003).wrapping_add(i as u64));
                let mut run_rng = Rng::new(run_seed(seed, i));
                match mode {
                    "text" => {
                        let case = text_case(&mut rng);
                        run_rel(&mut w, mode, i, &case, &mut run_rng, &prof, false);
                    }
                    _ => {
                        let case = gen_case(&mut rng, &prof);
                        run_rel(&mut w, mode, i, &case, &mut run_rng, &prof, false);
                    }
                }
            }
            w.flush().unwrap();
            eprintln!("harness: mode={} profile={} seed={} cases={}", mode, prof.name, seed, cases);
        }

        "kf3" => {
            // KF-C11-3 witness, implementation only (too wide for the list-based model):
            // 70000 columns, 69990 'x' on the second row; dump; restore; compare public observables
            let mut vt = Vt::builder().size(70000, 2).build();
            let text: String = std::iter::once('\r').chain(std::iter::once('\n')).chain(std::iter::repeat('x').take(69990)).collect();
            vt.feed_str(&text);
            let d = vt.dump();
            let mut re = Vt::builder().size(70000, 2).build();
            re.feed_str(&d);
            let same = vt.view() == re.view() && vt.cursor() == re.cursor();
            println!("KF3 {} orig_cursor={:?} restored_cursor={:?}", if same { "passes" } else { "fails" }, vt.cursor(), re.cursor());
        }

        "stress" => {
            // model-free totality stress (C01): huge counts with wrapping on, big screens, long inputs,
            // every public call; a per-call wall-clock watchdog stands in for "no hang"
            let seed: u64 = arg(&args, "--seed").map_or(1, |s| s.parse().unwrap());
            let cases: usize = arg(&args, "--cases").map_or(100, |s| s.parse().unwrap());
            let first: usize = arg(&args, "--first").map_or(0, |s| s.parse().unwrap());
            let prof = profile("general");
            let mut w = out;
            for i in first..first + cases {
                let mut rng = Rng::new(seed.wrapping_mul(1_000_003).wrapping_add(i as u64) ^ 0x5757);
                let (cols, rows) = *rng.pick(&[(1usize, 1usize), (1, 3), (3, 1), (2, 2), (5, 3), (80, 24), (132, 50), (7, 40), (200, 2)]);
                let limit = *rng.pick(&[None, Some(0usize), Some(1), Some(10), Some(1000)]);
                let mut b = Vt::builder();
                b.size(cols, rows);
                if let Some(l) = limit {
                    b.scrollback_limit(l);
                }
                let mut vt = b.build();
                let mut ctx = Ctx { cols, rows };
                let mut verdict = "ok".to_string();
                let mut worst_ms: u128 = 0;
                let mut last = String::new();
                let n = rng.range(10, 60);
                for _ in 0..n {
                    let big = *rng.pick(&["65535", "65535", "9999", "70000", "4294967296", "32768", "1000"]);
                    let s: String = match rng.below(12) {
                        0 => format!("x\x1b[{}b", big),
                        1 => format!("\x1b[{}@", big),
                        2 => format!("\x1b[{}L", big),
                        3 => format!("\x1b[{}M", big),
                        4 => format!("\x1b[{}S", big),
                        5 => format!("\x1b[{}T", big),
                        6 => format!("\x1b[{}P\x1b[{}X", big, big),
                        7 => format!("\x1b[{};{}H\x1b[{}A\x1b[{}B\x1b[{}C\x1b[{}D", big, big, big, big, big, big),
                        8 => format!("\x1b[{}I\x1b[{}Z\x1b[{}E\x1b[{}F", big, big, big, big),
                        9 => {
                            let k = rng.weighted(&prof.weights);
                            token(&mut rng, &ctx, k)
                        }
                        10 => (0..rng.range(1, 400)).map(|_| printable(&mut rng)).collect(),
                        _ => format!("\x1b[{};{}r\x1b[?6h\x1b[{}d", rng.range(1, rows), big, big),
                    };
                    last = s.clone();
                    let t0 = std::time::Instant::now();
                    let r = catch_unwind(AssertUnwindSafe(|| {
                        match rng.below(10) {
                            0 => {
                                let c = rng.range(1, 150);
                                let r = rng.range(1, 60);
                                {
                                    let ch = vt.resize(c, r);
                                    let _n = ch.scrollback.count();
                                }
                                (c, r)
                            }
                            1 => {
                                for ch in s.chars() {
                                    vt.feed(ch);
                                }
                                vt.size()
                            }
                            _ => {
                                {
                                    let ch = vt.feed_str(&s);
                                    let _n = ch.scrollback.count();
                                }
                                vt.size()
                            }
                        }
                    }));
                    let ms = t0.elapsed().as_millis();
                    worst_ms = worst_ms.max(ms);
                    match r {
                        Ok((c, r)) => {
                            ctx.cols = c;
                            ctx.rows = r;
                        }
                        Err(_) => {
                            verdict = "panic".into();
                            break;
                        }
                    }
                    if ms > 3000 {
                        verdict = "slow".into();
                        break;
                    }
                    let q = catch_unwind(AssertUnwindSafe(|| {
                        let _ = vt.dump();
                        let _ = vt.text();
                        let _ = vt.cursor();
                        for l in vt.view() {
                            let _ = l.chunks(|a, b| a.pen() != b.pen()).count();
                        }
                        for r in 0..vt.size().1 {
                            let _ = vt.line(r);
                        }
                    }));
                    if q.is_err() {
                        verdict = "panic".into();
                        break;
                    }
                }
                let mut l = format!("XSTRESS {} {} {} {} {} {} ", i, verdict, worst_ms, cols, rows, limit.map_or(-1, |l| l as i64));
                write!(l, "{}", last.chars().count()).unwrap();
                for c in last.chars() {
                    write!(l, " {}", c as u32).unwrap();
                }
                writeln!(w, "{}", l).unwrap();
            }
            w.flush().unwrap();
            eprintln!("harness: mode=stress seed={} cases={}", seed, cases);
        }
        "sweep" => {
            // exhaustive parser sweep: 14 states x every Unicode scalar value x backgrounds.
            // For each (background, state): feed CAN + intro, then one character c; record
            // (next state, emitted function) run-length encoded over c.
            let intros: [&[&str]; 14] = [
                &["", "\x1b[3;4m"],
                &["\x1b"],
                &["\x1b(", "\x1b#"],
                &["\x1b["],
                &["\x1b[5", "\x1b[?12;34", "\x1b[1:2:3;4", "\x1b[;"],
                &["\x1b[!", "\x1b[5$"],
                &["\x1b[:"],
                &["\x1bP"],
                &["\x1bP1", "\x1bP?1;2"],
                &["\x1bP$"],
                &["\x1bPq", "\x1bP1$q"],
                &["\x1bP:"],
                &["\x1b]"],
                &["\x1bX"],
            ];
            let stale = ["", "\x1b[9;8;7;6H"];
            let mut w = out;
            let mut total: u64 = 0;
            let results: Vec<String> = std::thread::scope(|sc| {
                let mut hs = Vec::new();
                for s in 0..14usize {
                    let intros = &intros;
                    let stale = &stale;
                    hs.push(sc.spawn(move || {
                        let mut o = String::new();
                        let mut n: u64 = 0;
                        for st in stale.iter() {
                            for intro in intros[s].iter() {
                                let full: String = format!("\x18{}\x18{}", st, intro);
                                let mut p = Parser::new();
                                write!(o, "SW {} {}", s, full.chars().count()).unwrap();
                                for ch in full.chars() {
                                    write!(o, " {}", ch as u32).unwrap();
                                }
                                o.push('\n');
                                let mut run: Option<(u32, u32, String)> = None;
                                for cp in 0u32..=0x10FFFF {
                                    let c = match char::from_u32(cp) {
                                        Some(c) => c,
                                        None => continue,
                                    };
                                    for ch in full.chars() {
                                        p.feed(ch);
                                    }
                                    assert_eq!(p.state as u8 as usize, s, "intro does not reach state");
                                    let f = p.feed(c);
                                    n += 1;
                                    let sig = match &f {
                                        Some(Function::Print(x)) if *x == c => format!("{} Print self", p.state as u8),
                                        Some(f) => format!("{} {}", p.state as u8, fmt_function(f)),
                                        None => format!("{} -", p.state as u8),
                                    };
                                    match &mut run {
                                        Some((_, hi, s0)) if *s0 == sig => *hi = cp,
                                        _ => {
                                            if let Some((lo, hi, s0)) = run.take() {
                                                writeln!(o, "RUN {} {} {}", lo, hi, s0).unwrap();
                                            }
                                            run = Some((cp, cp, sig));
                                        }
                                    }
                                }
                                if let Some((lo, hi, s0)) = run.take() {
                                    writeln!(o, "RUN {} {} {}", lo, hi, s0).unwrap();
                                }
                            }
                        }
                        (o, n)
                    }));
                }
                hs.into_iter()
                    .map(|h| {
                        let (o, n) = h.join().unwrap();
                        total += n;
                        o
                    })
                    .collect()
            });
            for r in results {
                w.write_all(r.as_bytes()).unwrap();
            }
            w.flush().unwrap();
            eprintln!("harness: sweep feeds={}", total);
        }

        "vsweep" => {
            // Vt-level sweep: after each of a few prefixes, EVERY Unicode scalar value, fed three ways
            // (one feed_str / two feed_str calls / feed() per character) into a fresh 4x2 terminal.
            //  - the three ways must agree (C12) and none may panic (C01): decided here, on the implementation alone
            //  - the signature (dump + number of lines, the character itself normalised) is run-length encoded over
            //    the scalar values; every value below U+0100 and both ends of every run above become ordinary
            //    trace cases, which the driver checks step-wise against the model with all oracles.
            let max_cases: usize = arg(&args, "--max-cases").map_or(1500, |s| s.parse().unwrap());
            const SEGS: u32 = 8;
            let njobs = VS_PRES.len() * SEGS as usize;
            let next = std::sync::atomic::AtomicUsize::new(0);
            let slots: Vec<std::sync::Mutex<Option<(String, Vec<usize>, u64, usize)>>> = (0..njobs).map(|_| std::sync::Mutex::new(None)).collect();
            std::thread::scope(|sc| {
                for _ in 0..16 {
                    sc.spawn(|| loop {
                        let job = next.fetch_add(1, std::sync::atomic::Ordering::SeqCst);
                        if job >= njobs {
                            break;
                        }
                        let k = job / SEGS as usize;
                        let seg = (job % SEGS as usize) as u32;
                        let pre = VS_PRES[k];
                        let (from, to) = (seg * (0x110000 / SEGS), (seg + 1) * (0x110000 / SEGS) - 1);
                        let mut echo = String::new();
                        let mut cases: Vec<usize> = Vec::new();
                        let mut n: u64 = 0;
                        let mut runs = 0usize;
                        let mut nech = 0usize;
                        let mut run: Option<(u32, u32, String)> = None;
                        for cp in from..=to {
                            let c = match char::from_u32(cp) {
                                Some(c) => c,
                                None => continue,
                            };
                            let a = vs_eval(pre, c, 0);
                            let b = vs_eval(pre, c, 1);
                            let d = vs_eval(pre, c, 2);
                            n += 3;
                            if (a == "PANIC" || b == "PANIC" || d == "PANIC") && nech < 5 {
                                nech += 1;
                                writeln!(echo, "ECHO ORA prop=C01 kind=vsweep.panic case={} prefix={} char={} input=[{}] one_call={} two_calls={} per_char={}",
                                    k * 0x110000 + cp as usize, k, cp, codes(&format!("{}{}", pre, c)), a == "PANIC", b == "PANIC", d == "PANIC").unwrap();
                            }
                            if (a != b || a != d) && nech < 5 {
                                nech += 1;
                                writeln!(echo, "ECHO ORA prop=C12 kind=vsweep.chunking case={} prefix={} char={} input=[{}] differs={}",
                                    k * 0x110000 + cp as usize, k, cp, codes(&format!("{}{}", pre, c)), if a != b { "feed_str(pre);feed_str(c)" } else { "feed()-per-character" }).unwrap();
                            }
                            let sig = format!("{}\u{1}{}\u{1}{}", a, if b == a { "" } else { &b }, if d == a { "" } else { &d });
                            if cp < 0x100 {
                                cases.push(k * 0x110000 + cp as usize);
                            }
                            match &mut run {
                                Some((_, hi, s0)) if *s0 == sig => *hi = cp,
                                _ => {
                                    if let Some((lo, hi, _)) = run.take() {
                                        runs += 1;
                                        if lo >= 0x100 { cases.push(k * 0x110000 + lo as usize); }
                                        if hi >= 0x100 && hi != lo { cases.push(k * 0x110000 + hi as usize); }
                                    }
                                    run = Some((cp, cp, sig));
                                }
                            }
                        }
                        if let Some((lo, hi, _)) = run.take() {
                            runs += 1;
                            if lo >= 0x100 { cases.push(k * 0x110000 + lo as usize); }
                            if hi >= 0x100 && hi != lo { cases.push(k * 0x110000 + hi as usize); }
                        }
                        *slots[job].lock().unwrap() = Some((echo, cases, n, runs));
                    });
                }
            });
            let results: Vec<(String, Vec<usize>, u64, usize)> = slots.into_iter().map(|m| m.into_inner().unwrap().unwrap()).collect();
            let mut tr = Tracer { w: out, steps: 0, panics: 0, truncated: 0, max_lines: 150 };
            let (mut total, mut runs, mut ncases, mut dropped) = (0u64, 0usize, 0usize, 0usize);
            for (echo, cases, n, r) in results {
                tr.w.write_all(echo.as_bytes()).unwrap();
                total += n;
                runs += r;
                for (j, id) in cases.iter().enumerate() {
                    if j >= max_cases / SEGS as usize + 300 { dropped += cases.len() - j; break; }
                    tr.run_case(*id, &vs_case(*id), false);
                    ncases += 1;
                    if let Some(text) = vs_text(*id) {
                        // C09 on the same input: text() and the unwrapped lines() reproduce it
                        rel::run_text(&mut tr.w, *id, &mut Rng::new(*id as u64), Some((VS_COLS, VS_ROWS, text)));
                    }
                }
            }
            writeln!(tr.w, "VSTAT {} {} {}", total, runs, ncases).unwrap();
            tr.w.flush().unwrap();
            eprintln!("harness: vsweep prefixes={} feeds={} runs={} trace_cases={} dropped={} checkpoints={} panics={}",
                VS_PRES.len(), total, runs, ncases, dropped, tr.steps, tr.panics);
        }
        "case" => {
            // print case <index> of (seed, profile) in the replay format
            let seed: u64 = arg(&args, "--seed").map_or(1, |s| s.parse().unwrap());
            let i: usize = arg(&args, "--index").map_or(0, |s| s.parse().unwrap());
            let prof = profile(match arg(&args, "--profile") { Some("vsweep") | None => "general", Some(p) => p });
            let mut rng = if prof.name.starts_with("exhaust") { Rng(i as u64) } else { Rng::new(seed.wrapping_mul(1_000_003).wrapping_add(i as u64)) };
            let m = arg(&args, "--mode").unwrap_or("trace");
            let case = if m == "vsweep" { vs_case(i) } else if m == "text" { text_case(&mut rng) } else { gen_case(&mut rng, &prof) };
            let mut w = out;
            write_case(&mut w, &case, run_seed(seed, i));
            w.flush().unwrap();
        }
        _ => {
            eprintln!("usage: avt-harness trace --seed S --cases N --profile P [--queries] [--out FILE]");
            std::process::exit(2);
        }
    }
}
