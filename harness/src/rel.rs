//! Relational modes: runs of the implementation that are compared with each other (or with
//! their input) by the extracted statements holds_C09 / C11 / C12 / C14.
//!
//! records (after the usual `CASE id cols rows limit` line):
//!   X09 <k> <cp>*k            the text fed (printables and CR LF); followed by QT and QU
//!   QU <n> (<k> <cp>*k)*n     TextUnwrapper folded over lines()
//!   X12 <variant>             0 = one feed_str, 1 = random chunks, 2 = feed() per character; followed by S
//!   X14 <L> <n> LINE*n <m> LINE*m <u> LINE*u <coll>   drained + final lines with limit L, final lines unlimited,
//!                              coll = 1 iff TextCollector output equal for L / unlimited / chunked
//!   X11 <tag>                 tag 0 = at dump time, k>0 = after continuation k; followed by two S lines (orig, restored)
use crate::gen::*;
use crate::{fmt_line, line_wrapped};
use avt::util::{TextCollector, TextUnwrapper};
use avt::{Line, Vt};
use std::fmt::Write as _;
use std::io::Write;
use std::panic::{catch_unwind, AssertUnwindSafe};

fn build(cols: usize, rows: usize, limit: Option<usize>) -> Vt {
    let mut b = Vt::builder();
    b.size(cols, rows);
    if let Some(l) = limit {
        b.scrollback_limit(l);
    }
    b.build()
}

fn cps(tag: &str, s: &str) -> String {
    let mut o = format!("{} {}", tag, s.chars().count());
    for c in s.chars() {
        write!(o, " {}", c as u32).unwrap();
    }
    o
}

fn strs(tag: &str, v: &[String]) -> String {
    let mut o = format!("{} {}", tag, v.len());
    for l in v {
        write!(o, " {}", l.chars().count()).unwrap();
        for c in l.chars() {
            write!(o, " {}", c as u32).unwrap();
        }
    }
    o
}

fn lines_rec(ls: &[Line], o: &mut String) {
    write!(o, "{} ", ls.len()).unwrap();
    for l in ls {
        fmt_line(l, line_wrapped(l), o);
    }
}

// ---------------------------------------------------------------- C09
pub fn gen_text(rng: &mut Rng, cols: usize) -> String {
    let n = rng.range(0, 6);
    let mut s = String::new();
    for i in 0..n {
        let len = match rng.below(7) {
            0 => 0,
            1 => cols,
            2 => 2 * cols,
            3 => rng.range(0, cols),
            4 => cols + rng.range(0, cols),
            5 => 3 * cols,
            _ => rng.range(0, 3 * cols + 2),
        };
        let style = rng.below(5);
        for j in 0..len {
            let c = match style {
                0 => ' ',
                1 => {
                    if rng.chance(50) {
                        ' '
                    } else {
                        'x'
                    }
                }
                2 => *rng.pick(&['a', ' ', '\u{a0}', '\u{e9}', '\u{4e00}', '\u{3000}', '~', '\u{7f}', '\u{2003}']),
                3 => {
                    // any printable scalar value, structured: plane x interesting low 16 bits
                    let plane = *rng.pick(&[0u32, 0, 0, 1, 2, 3, 14, 15, 16]);
                    let low = match rng.below(5) {
                        0 => rng.below(0x100) as u32,
                        1 => 0xa0 + rng.below(0x60) as u32,
                        2 => *rng.pick(&[0x100u32, 0x2000, 0x2028, 0x3000, 0xd7ff, 0xe000, 0xfeff, 0xfffd, 0xfffe, 0xffff, 0x7f, 0x9f, 0xa0, 0x20, 0x7e]),
                        _ => rng.below(0x10000) as u32,
                    };
                    let cp = (plane << 16) | low;
                    match char::from_u32(cp) {
                        Some(c) if cp >= 0x20 && !(0x7f..0xa0).contains(&cp) || cp == 0x7f => c,
                        _ => 'y',
                    }
                }
                _ => (b'a' + ((i * 7 + j) % 26) as u8) as char,
            };
            s.push(c);
        }
        if i + 1 < n || rng.chance(30) {
            s.push_str("\r\n");
        }
    }
    s
}

pub fn run_text<W: Write>(w: &mut W, id: usize, rng: &mut Rng, exhaustive: Option<(usize, usize, String)>) {
    let (cols, rows, text) = match exhaustive {
        Some(x) => x,
        None => {
            let cols = *rng.pick(&[1usize, 1, 2, 2, 3, 3, 4, 5, 7, 8, 10, 20, 80]);
            let rows = *rng.pick(&[1usize, 1, 2, 3, 4, 6, 24]);
            (cols, rows, gen_text(rng, cols))
        }
    };
    writeln!(w, "CASE {} {} {} -1", id, cols, rows).unwrap();
    writeln!(w, "{}", cps("X09", &text)).unwrap();
    let r = catch_unwind(AssertUnwindSafe(|| {
        let mut vt = build(cols, rows, None);
        // feed in random pieces: C09 quantifies over the text, not the chunking
        let chars: Vec<char> = text.chars().collect();
        let mut i = 0;
        while i < chars.len() {
            let n = rng.range(1, 9).min(chars.len() - i);
            let piece: String = chars[i..i + n].iter().collect();
            vt.feed_str(&piece);
            i += n;
        }
        let t = vt.text();
        let mut unw = TextUnwrapper::new();
        let mut out: Vec<String> = vt.lines().iter().filter_map(|l| unw.push(l)).collect();
        out.extend(unw.flush());
        (strs("QT", &t), strs("QU", &out))
    }));
    match r {
        Ok((a, b)) => {
            writeln!(w, "{}\n{}", a, b).unwrap();
        }
        Err(_) => writeln!(w, "QPANIC").unwrap(),
    }
    writeln!(w, "END").unwrap();
}

// ---------------------------------------------------------------- C12
fn session_string(case: &Case) -> (Vec<Op>, String) {
    // prefix: ops up to the last resize (applied identically), then one string made of the rest
    let last_resize = case.ops.iter().rposition(|o| matches!(o, Op::Resize(..)));
    let split = last_resize.map_or(0, |i| i + 1);
    let prefix: Vec<Op> = case.ops[..split].to_vec();
    let mut s = String::new();
    for op in &case.ops[split..] {
        if let Op::Str(x) = op {
            s.push_str(x);
        }
    }
    (prefix, s)
}

fn apply_prefix(vt: &mut Vt, prefix: &[Op]) {
    for op in prefix {
        match op {
            Op::Str(s) => {
                vt.feed_str(s);
            }
            Op::Flush => {
                vt.feed_str("");
            }
            Op::Mark => {}
            Op::Resize(c, r) => {
                vt.resize(*c, *r);
            }
        }
    }
}

pub fn run_chunk<W: Write>(w: &mut W, id: usize, rng: &mut Rng, case: &Case) {
    let (prefix, s) = session_string(case);
    writeln!(w, "CASE {} {} {} {}", id, case.cols, case.rows, case.limit.map_or(-1, |l| l as i64)).unwrap();
    let chars: Vec<char> = s.chars().collect();
    for variant in 0..3 {
        let r = catch_unwind(AssertUnwindSafe(|| {
            let mut vt = build(case.cols, case.rows, case.limit);
            apply_prefix(&mut vt, &prefix);
            match variant {
                0 => {
                    vt.feed_str(&s);
                }
                1 => {
                    let mut i = 0;
                    while i < chars.len() {
                        let n = match rng.below(4) {
                            0 => 1,
                            1 => rng.range(1, 3),
                            2 => rng.range(1, 8),
                            _ => rng.range(1, 40),
                        }
                        .min(chars.len() - i);
                        let piece: String = chars[i..i + n].iter().collect();
                        vt.feed_str(&piece);
                        i += n;
                    }
                }
                _ => {
                    for c in &chars {
                        vt.feed(*c);
                    }
                }
            }
            vt.verif_state()
        }));
        match r {
            Ok(st) => writeln!(w, "X12 {}\nS {}", variant, st).unwrap(),
            Err(_) => writeln!(w, "QPANIC").unwrap(),
        }
    }
    writeln!(w, "END").unwrap();
}

// ---------------------------------------------------------------- C14
pub fn run_stream<W: Write>(w: &mut W, id: usize, rng: &mut Rng, case: &Case) {
    // session: the case's strings without resizes; RIS removed; ends on the primary screen
    let mut pieces: Vec<String> = Vec::new();
    for op in &case.ops {
        if let Op::Str(s) = op {
            pieces.push(s.replace("\x1bc", "\x1bD"));
        }
    }
    pieces.push("\x1b[?47l".to_string());
    let limit = case.limit.unwrap_or(*rng.pick(&[0usize, 1, 3, 10, 11]));
    // a shadow parser rejects sessions in which RIS is nevertheless emitted (e.g. ESC split over pieces)
    let mut shadow = avt::parser::Parser::new();
    let mut has_ris = false;
    for p in &pieces {
        for c in p.chars() {
            if let Some(avt::parser::Function::Ris) = shadow.feed(c) {
                has_ris = true;
            }
        }
    }
    if has_ris {
        return;
    }
    writeln!(w, "CASE {} {} {} {}", id, case.cols, case.rows, limit).unwrap();
    let r = catch_unwind(AssertUnwindSafe(|| {
        let mut a = build(case.cols, case.rows, Some(limit));
        let mut u = build(case.cols, case.rows, None);
        let mut drained: Vec<Line> = Vec::new();
        for (i, p) in pieces.iter().enumerate() {
            let ch = a.feed_str(p);
            if i % 5 == 3 {
                drop(ch); // an unconsumed Changes value must still remove the lines
                          // (they are lost to the consumer by its own choice; track them via lines() below)
                // to keep the stream complete we must not drop here when lines were drained:
                // handled by re-running below
            } else {
                drained.extend(ch.scrollback);
            }
            u.feed_str(p);
        }
        // second run that consumes everything (the first run exercised drop)
        let mut a2 = build(case.cols, case.rows, Some(limit));
        let mut drained2: Vec<Line> = Vec::new();
        for p in pieces.iter() {
            drained2.extend(a2.feed_str(p).scrollback);
        }
        let same_final = a.lines() == a2.lines();
        // TextCollector: limit L, unlimited, and L with different chunking
        let whole: String = pieces.concat();
        let mut c1 = TextCollector::new(build(case.cols, case.rows, Some(limit)));
        let mut o1: Vec<String> = Vec::new();
        for p in pieces.iter() {
            o1.extend(c1.feed_str(p));
        }
        o1.extend(c1.flush());
        let mut c2 = TextCollector::new(build(case.cols, case.rows, None));
        let mut o2: Vec<String> = c2.feed_str(&whole).collect();
        o2.extend(c2.flush());
        let mut c3 = TextCollector::new(build(case.cols, case.rows, Some(limit)));
        let mut o3: Vec<String> = Vec::new();
        let chars: Vec<char> = whole.chars().collect();
        let mut i = 0;
        while i < chars.len() {
            let n = rng.range(1, 17).min(chars.len() - i);
            let piece: String = chars[i..i + n].iter().collect();
            o3.extend(c3.feed_str(&piece));
            i += n;
        }
        o3.extend(c3.flush());
        // the collector cannot know, when it hands out an empty line early, that nothing will follow:
        // like flush() itself, compare modulo trailing empty lines
        fn strip(mut v: Vec<String>) -> Vec<String> {
            while v.last().map_or(false, |l| l.is_empty()) {
                v.pop();
            }
            v
        }
        // 1 = identical; 2 = identical only modulo trailing empty lines (known finding KF-C14-1); 0 = different
        let strict = o1 == o2 && o2 == o3;
        let (o1, o2, o3) = (strip(o1), strip(o2), strip(o3));
        let coll: u8 = if !(o1 == o2 && o2 == o3 && same_final) { 0 } else if strict { 1 } else { 2 };
        let mut o = format!("X14 {} ", limit);
        lines_rec(&drained2, &mut o);
        lines_rec(a2.lines(), &mut o);
        lines_rec(u.lines(), &mut o);
        write!(o, "{}", coll).unwrap();
        // third run: some pieces go through the char-at-a-time Vt::feed (which hands out nothing); whatever scrolled
        // off meanwhile must come out of a later feed_str - nothing may be dropped on the way
        let mut a3 = build(case.cols, case.rows, Some(limit));
        let mut drained3: Vec<Line> = Vec::new();
        let last = pieces.len() - 1;
        for (i, p) in pieces.iter().enumerate() {
            if i != last && rng.chance(45) {
                for c in p.chars() {
                    a3.feed(c);
                }
            } else {
                drained3.extend(a3.feed_str(p).scrollback);
            }
        }
        drained3.extend(a3.feed_str("").scrollback);
        write!(o, "\nX14 {} ", limit).unwrap();
        lines_rec(&drained3, &mut o);
        lines_rec(a3.lines(), &mut o);
        lines_rec(u.lines(), &mut o);
        write!(o, "1").unwrap();
        o
    }));
    match r {
        Ok(o) => writeln!(w, "{}", o).unwrap(),
        Err(_) => writeln!(w, "QPANIC").unwrap(),
    }
    writeln!(w, "END").unwrap();
}

// ---------------------------------------------------------------- C11
const PROBES: [&str; 14] = [
    "\x1b[1;1Hp",                    // origin mode / margins
    "\x1b[999;999Hqr",               // auto-wrap at the last column
    "\r\t1\t2\t3\t4",                // tab stops
    "\x1b8X\x1b[?1047h\x1b8Y\x1b[?1047l", // saved contexts on both screens
    "\n\n\x1bM\x1bM\x1bM",           // margins, LNM
    "\x0ea\x0fa",                    // charsets
    "\x1b[2;2Hins",                  // insert mode
    "\x1b[?6h\x1b[1;1HO\x1b[?6l",    // region
    "\x1b[?1049l\x1b[1;1HZ",         // leave the alternate screen
    "\x1b[5Cab\x08\x08c",
    "\x1b[?1049hw\x1b[?1049l",
    "\x1b[!pS",
    "xyz\r\nuvw",
    "\x1b[3J\x1b[2Jk",
];

pub fn run_dump<W: Write>(w: &mut W, id: usize, rng: &mut Rng, case: &Case, prof: &Profile, at_end: bool) {
    writeln!(w, "CASE {} {} {} {}", id, case.cols, case.rows, case.limit.map_or(-1, |l| l as i64)).unwrap();
    // cut point: after a random op, possibly in the middle of its string
    let nops = case.ops.len();
    for _round in 0..2 {
        let cut = if at_end { nops } else { rng.range(0, nops) };
        let r = catch_unwind(AssertUnwindSafe(|| {
            let mut out = String::new();
            let mut vt = build(case.cols, case.rows, case.limit);
            for (i, op) in case.ops.iter().enumerate() {
                if i >= cut {
                    break;
                }
                match op {
                    Op::Str(s) => {
                        if i + 1 == cut && !at_end && rng.chance(50) {
                            // cut inside the string
                            let chars: Vec<char> = s.chars().collect();
                            let k = rng.range(0, chars.len());
                            let piece: String = chars[..k].iter().collect();
                            vt.feed_str(&piece);
                        } else {
                            vt.feed_str(s);
                        }
                    }
                    Op::Flush => {
                        vt.feed_str("");
                    }
                    Op::Mark => {}
                    Op::Resize(c, r) => {
                        vt.resize(*c, *r);
                    }
                }
            }
            let (c, r) = vt.size();
            let d = vt.dump();
            let mut re = build(c, r, None);
            re.feed_str(&d);
            writeln!(out, "X11 0\nS {}\nS {}", vt.verif_state(), re.verif_state()).unwrap();
            // public comparison as the property states it
            let same_public = |a: &Vt, b: &Vt| {
                a.view() == b.view()
                    && a.view().iter().map(line_wrapped).collect::<Vec<_>>() == b.view().iter().map(line_wrapped).collect::<Vec<_>>()
                    && a.cursor() == b.cursor()
                    && a.cursor_key_app_mode() == b.cursor_key_app_mode()
            };
            let mut pub_ok = same_public(&vt, &re);
            // continuation: probes and random input on both
            let ctx = Ctx { cols: c, rows: r };
            let mut k = 1;
            for _ in 0..3 {
                let mut cont = String::new();
                if rng.chance(60) {
                    cont.push_str(*rng.pick(&PROBES[..]));
                }
                for _ in 0..rng.range(0, 6) {
                    let kind = rng.weighted(&prof.weights);
                    cont.push_str(&token(rng, &ctx, kind));
                }
                vt.feed_str(&cont);
                re.feed_str(&cont);
                pub_ok = pub_ok && same_public(&vt, &re);
                writeln!(out, "X11 {}\nS {}\nS {}", k, vt.verif_state(), re.verif_state()).unwrap();
                k += 1;
            }
            writeln!(out, "X11P {}", pub_ok as u8).unwrap();
            out
        }));
        match r {
            Ok(o) => write!(w, "{}", o).unwrap(),
            Err(_) => writeln!(w, "QPANIC").unwrap(),
        }
    }
    writeln!(w, "END").unwrap();
}
