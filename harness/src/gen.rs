//! Case generators. Every random choice derives from one splitmix64 stream.

#[derive(Clone)]
pub struct Rng(pub u64);

impl Rng {
    pub fn new(seed: u64) -> Self {
        Rng(seed.wrapping_mul(0x9E3779B97F4A7C15).wrapping_add(0x1234567))
    }

    pub fn next(&mut self) -> u64 {
        self.0 = self.0.wrapping_add(0x9E3779B97F4A7C15);
        let mut z = self.0;
        z = (z ^ (z >> 30)).wrapping_mul(0xBF58476D1CE4E5B9);
        z = (z ^ (z >> 27)).wrapping_mul(0x94D049BB133111EB);
        z ^ (z >> 31)
    }

    pub fn below(&mut self, n: usize) -> usize {
        if n == 0 {
            0
        } else {
            (self.next() % (n as u64)) as usize
        }
    }

    pub fn range(&mut self, lo: usize, hi: usize) -> usize {
        lo + self.below(hi - lo + 1)
    }

    pub fn chance(&mut self, percent: usize) -> bool {
        self.below(100) < percent
    }

    pub fn pick<'a, T>(&mut self, xs: &'a [T]) -> &'a T {
        &xs[self.below(xs.len())]
    }

    pub fn weighted(&mut self, ws: &[usize]) -> usize {
        let total: usize = ws.iter().sum();
        let mut x = self.below(total);
        for (i, w) in ws.iter().enumerate() {
            if x < *w {
                return i;
            }
            x -= *w;
        }
        ws.len() - 1
    }
}

#[derive(Clone, Debug)]
pub enum Op {
    Str(String),
    Flush,
    Resize(usize, usize),
    /// checkpoint only (no API call): delimits a chunk of characters for the C20 oracle
    Mark,
}

#[derive(Clone, Debug)]
pub struct Case {
    pub cols: usize,
    pub rows: usize,
    pub limit: Option<usize>,
    pub ops: Vec<Op>,
}

pub const KINDS: usize = 17;
pub const K_TEXT: usize = 0;
pub const K_C0: usize = 1;
pub const K_C1: usize = 2;
pub const K_ESC: usize = 3;
pub const K_CURSOR: usize = 4;
pub const K_EDIT: usize = 5;
pub const K_SCROLL: usize = 6;
pub const K_SGR: usize = 7;
pub const K_MODE: usize = 8;
pub const K_TABS: usize = 9;
pub const K_STRING: usize = 10;
pub const K_MALFORMED: usize = 11;
pub const K_SAVE: usize = 12;
pub const K_REP: usize = 13;
pub const K_CHARSET: usize = 14;
pub const K_RESET: usize = 15;
pub const K_ALT: usize = 16;

pub const KIND_NAMES: [&str; KINDS] = [
    "text", "c0", "c1", "esc", "cursor", "edit", "scroll", "sgr", "mode", "tabs", "string",
    "malformed", "save", "rep", "charset", "reset", "alt",
];

pub struct Profile {
    pub name: &'static str,
    pub weights: [usize; KINDS],
    pub resize_pct: usize,
    pub flush_pct: usize,
    pub max_cols: usize,
    pub max_rows: usize,
    pub len: (usize, usize),
}

pub fn profile(name: &str) -> Profile {
    //            text c0 c1 esc cur edit scr sgr mode tabs str malf save rep cs reset alt
    let general = [30, 8, 3, 3, 10, 8, 8, 5, 5, 4, 2, 3, 3, 2, 2, 1, 3];
    let mut p = Profile {
        name: "general",
        weights: general,
        resize_pct: 4,
        flush_pct: 6,
        max_cols: 10,
        max_rows: 6,
        len: (5, 60),
    };
    match name {
        "general" => {}
        "parser" => {
            p.name = "parser";
            p.weights = [6, 8, 8, 10, 8, 5, 4, 8, 6, 4, 14, 18, 3, 2, 3, 1, 1];
            p.resize_pct = 0;
        }
        "print" => {
            p.name = "print";
            p.weights = [50, 5, 1, 1, 8, 2, 3, 3, 8, 1, 0, 1, 1, 6, 8, 0, 2];
            p.resize_pct = 3;
        }
        "cursor" => {
            p.name = "cursor";
            p.weights = [8, 10, 4, 4, 40, 1, 8, 1, 8, 8, 0, 1, 3, 1, 0, 0, 2];
            p.resize_pct = 4;
        }
        "scroll" => {
            p.name = "scroll";
            p.weights = [20, 10, 5, 4, 10, 2, 35, 3, 3, 0, 0, 0, 1, 1, 0, 0, 4];
            p.resize_pct = 4;
        }
        "edit" => {
            p.name = "edit";
            p.weights = [25, 3, 1, 3, 15, 40, 3, 6, 3, 0, 0, 0, 1, 1, 0, 0, 2];
            p.resize_pct = 2;
        }
        "sgr" => {
            p.name = "sgr";
            p.weights = [15, 2, 0, 1, 3, 8, 3, 60, 1, 0, 0, 2, 3, 6, 0, 1, 2];
            p.resize_pct = 0;
        }
        "resize" => {
            p.name = "resize";
            p.weights = [45, 8, 2, 2, 10, 8, 6, 2, 3, 1, 0, 0, 3, 2, 0, 0, 4];
            p.resize_pct = 20;
            p.max_cols = 9;
            p.max_rows = 6;
        }
        "alt" => {
            p.name = "alt";
            p.weights = [30, 8, 2, 2, 10, 6, 8, 3, 4, 1, 0, 0, 10, 1, 1, 3, 18];
            p.resize_pct = 10;
        }
        "save" => {
            p.name = "save";
            p.weights = [15, 4, 1, 2, 20, 2, 4, 10, 10, 0, 0, 0, 30, 1, 0, 3, 10];
            p.resize_pct = 8;
        }
        "tabs" => {
            p.name = "tabs";
            p.weights = [8, 6, 3, 1, 20, 1, 1, 0, 2, 50, 0, 0, 1, 0, 0, 2, 1];
            p.resize_pct = 12;
            p.max_cols = 40;
            p.max_rows = 3;
        }
        "reset" => {
            p.name = "reset";
            p.weights = [15, 5, 2, 3, 8, 4, 4, 6, 10, 6, 3, 8, 6, 1, 5, 10, 6];
            p.resize_pct = 5;
        }
        "inert" => {
            p.name = "inert";
            p.weights = [10, 4, 4, 6, 4, 2, 2, 2, 4, 2, 35, 25, 1, 1, 1, 0, 1];
            p.resize_pct = 0;
        }
        "scrollback" => {
            p.name = "scrollback";
            p.weights = [30, 25, 3, 2, 5, 2, 15, 1, 2, 0, 0, 0, 1, 1, 0, 0, 8];
            p.resize_pct = 8;
            p.flush_pct = 15;
        }
        "dirty" => {
            p.name = "dirty";
            p.flush_pct = 25;
        }
        "exhaust2" => {
            p.name = "exhaust2";
        }
        "exhaust3" => {
            p.name = "exhaust3";
        }
        _ => panic!("unknown profile {}", name),
    }
    p
}

pub struct Ctx {
    pub cols: usize,
    pub rows: usize,
}

fn csi(rng: &mut Rng) -> &'static str {
    if rng.chance(75) {
        "\x1b["
    } else {
        "\u{9b}"
    }
}

/// a numeric parameter in one of the classes {absent, 0, 1, small, edge-1, edge, edge+1, 65535, >65535}
pub fn param(rng: &mut Rng, edge: usize) -> String {
    match rng.weighted(&[14, 8, 14, 22, 8, 10, 8, 5, 3, 4, 4]) {
        0 => String::new(),
        1 => "0".into(),
        2 => "1".into(),
        3 => rng.range(2, 6).to_string(),
        4 => edge.saturating_sub(1).to_string(),
        5 => edge.to_string(),
        6 => (edge + 1).to_string(),
        7 => "65535".into(),
        8 => rng.pick(&["65536", "70000", "4294967296", "99999999999"]).to_string(),
        9 => rng.range(0, 300).to_string(),
        _ => format!("{:03}", rng.range(0, 12)),
    }
}

pub fn printable(rng: &mut Rng) -> char {
    match rng.weighted(&[50, 12, 3, 8, 4, 10, 3, 3]) {
        0 => (b'a' + rng.below(26) as u8) as char,
        1 => ' ',
        2 => '\u{7f}',
        3 => char::from_u32(0xa0 + rng.below(0x60) as u32).unwrap(),
        4 => *rng.pick(&['\u{4e00}', '\u{ff21}', '\u{1f600}', '\u{10ffff}', '\u{3000}', '\u{2003}', '\u{e9}']),
        5 => char::from_u32(0x60 + rng.below(0x1f) as u32).unwrap(),
        6 => char::from_u32(0x20 + rng.below(0x5f) as u32).unwrap(),
        _ => *rng.pick(&['\u{a0}', '\u{a1}', '\u{9f}', '\u{ff}', '\u{100}', '~', '`', '_', '^']),
    }
}

fn sgr_params(rng: &mut Rng) -> String {
    let n = rng.range(0, 5);
    let mut parts: Vec<String> = Vec::new();
    for _ in 0..n {
        let s = match rng.weighted(&[30, 8, 8, 8, 8, 8, 8, 6, 6, 10]) {
            0 => rng
                .pick(&[
                    "0", "1", "2", "3", "4", "5", "7", "9", "21", "22", "23", "24", "25", "27", "29", "39", "49", "",
                ])
                .to_string(),
            1 => rng.range(30, 37).to_string(),
            2 => rng.range(40, 47).to_string(),
            3 => rng.range(90, 97).to_string(),
            4 => rng.range(100, 107).to_string(),
            5 => format!("{};5;{}", rng.pick(&[38, 48]), rng.pick(&[0, 1, 7, 8, 15, 16, 100, 255, 256, 300, 65535])),
            6 => format!(
                "{};2;{};{};{}",
                rng.pick(&[38, 48]),
                rng.below(300),
                rng.pick(&[0, 1, 255, 256]),
                rng.below(256)
            ),
            7 => format!("{}:5:{}", rng.pick(&[38, 48]), rng.pick(&[0, 7, 8, 15, 16, 196, 255, 256, 999])),
            8 => match rng.below(3) {
                0 => format!("{}:2:{}:{}:{}", rng.pick(&[38, 48]), rng.below(256), rng.below(256), rng.below(300)),
                1 => format!("{}:2::{}:{}:{}", rng.pick(&[38, 48]), rng.below(256), rng.below(256), rng.below(256)),
                _ => format!("{}:2:7:{}:{}:{}", rng.pick(&[38, 48]), rng.below(256), rng.below(256), rng.below(256)),
            },
            _ => rng
                .pick(&[
                    "6", "8", "10", "26", "28", "38", "48", "38;5", "38;2;1;2", "48;2", "38;3;1", "38:5", "38:2:1",
                    "38:2:1:2:3:4:5:6", "50", "89", "98", "108", "256", "65535", "38:5:1:2", "1:2", "0:1", "38;7",
                    "48;5", "4:3", "::",
                ])
                .to_string(),
        };
        parts.push(s);
    }
    parts.join(";")
}

pub fn token(rng: &mut Rng, ctx: &Ctx, kind: usize) -> String {
    let cols = ctx.cols;
    let rows = ctx.rows;
    match kind {
        K_TEXT => {
            let n = match rng.weighted(&[50, 30, 10, 10]) {
                0 => 1,
                1 => rng.range(2, 4),
                2 => cols,
                _ => rng.range(1, 2 * cols + 2),
            };
            (0..n).map(|_| printable(rng)).collect()
        }
        K_C0 => rng
            .pick(&[
                "\x08", "\x09", "\x0a", "\x0a", "\x0a", "\x0b", "\x0c", "\x0d", "\x0d", "\x0e", "\x0f", "\x00",
                "\x07", "\x18", "\x1a", "\x05", "\x1c", "\x1f", "\r\n", "\r\n",
            ])
            .to_string(),
        K_C1 => rng
            .pick(&[
                "\u{84}", "\u{85}", "\u{88}", "\u{8d}", "\u{8d}", "\u{84}", "\u{80}", "\u{8e}", "\u{99}", "\u{9a}",
                "\u{9c}", "\u{86}", "\u{91}",
            ])
            .to_string(),
        K_ESC => rng
            .pick(&[
                "\x1bD", "\x1bE", "\x1bH", "\x1bM", "\x1bM", "\x1bD", "\x1b#8", "\x1b#3", "\x1b=", "\x1b>", "\x1bN",
                "\x1b\\", "\x1bZ", "\x1b %", "\x1b@", "\x1b_x\x1b\\", "\x1b6", "\x1b9", "\x1b#9", "\x1b$8",
            ])
            .to_string(),
        K_CURSOR => {
            let f = *rng.pick(&[
                'A', 'B', 'C', 'D', 'E', 'F', 'G', 'H', '`', 'a', 'd', 'e', 'f', 'A', 'B', 'H', 'd', 'D', 'C',
            ]);
            match f {
                'H' | 'f' => {
                    if rng.chance(15) {
                        format!("{}{}{}", csi(rng), param(rng, rows), f)
                    } else {
                        format!("{}{};{}{}", csi(rng), param(rng, rows), param(rng, cols), f)
                    }
                }
                'A' | 'B' | 'E' | 'F' | 'd' | 'e' => format!("{}{}{}", csi(rng), param(rng, rows), f),
                _ => format!("{}{}{}", csi(rng), param(rng, cols), f),
            }
        }
        K_EDIT => {
            let f = *rng.pick(&['J', 'K', 'X', '@', 'P', 'J', 'K', 'X', '@', 'P', 'E']);
            match f {
                'J' => format!("{}{}J", csi(rng), rng.pick(&["", "0", "1", "2", "3", "4", "1;2"])),
                'K' => format!("{}{}K", csi(rng), rng.pick(&["", "0", "1", "2", "3", "00"])),
                'E' => "\x1b#8".to_string(),
                _ => format!("{}{}{}", csi(rng), param(rng, cols), f),
            }
        }
        K_SCROLL => match rng.weighted(&[12, 12, 14, 14, 18, 8, 8, 8, 6, 8, 6]) {
            10 => {
                // composite: a region whose bottom margin lies above the last row, the cursor parked BELOW it on the last row,
                // then more than a row of text: the auto-wrap there neither scrolls nor moves down and must not mark the row as
                // soft-wrapped (a later resize would glue it to what follows); often ends in the wrap-pending column
                let mut s = String::new();
                if rows >= 3 {
                    let b = rng.range(2, rows - 1);
                    let t = rng.range(1, b - 1).max(1);
                    s.push_str(&format!("\x1b[{};{}r", t, b));
                }
                if rng.chance(70) {
                    s.push_str("\x1b[?7h");
                }
                s.push_str(&format!("\x1b[{};1H", rows));
                let n = if rng.chance(50) { cols * rng.range(1, 2) } else { cols + rng.range(1, cols.max(1)) };
                for i in 0..n {
                    s.push((b'a' + (i % 26) as u8) as char);
                }
                if rng.chance(30) {
                    s.push_str("\x1b[r");
                }
                s
            }
            9 => {
                // composite: whole-screen scrolls, then a top-anchored (or inner) partial region and a scroll inside
                // it, all within one string (so that no end-of-call trim happens in between)
                let mut s = String::new();
                if rng.chance(50) {
                    s.push_str("\x1b[r");
                }
                s.push_str("\x1b[999;1H");
                for i in 0..rng.range(1, 3) {
                    s.push((b'A' + i as u8) as char);
                    s.push('\n');
                }
                let n = if rows >= 2 { rng.range(1, rows - 1).max(1) } else { 1 };
                let t = if rng.chance(70) { 1 } else { rng.range(1, n) };
                s.push_str(&format!("\x1b[{};{}r", t, n.max(t + 1).min(rows.max(1))));
                match rng.below(4) {
                    0 => s.push_str(&format!("\x1b[{}S", rng.range(1, 2))),
                    1 => s.push_str(&format!("\x1b[{};1H\n\n", n.max(t + 1).min(rows.max(1)))),
                    2 => s.push_str(&format!("\x1b[{};1H\x1b[{}M", t, rng.range(1, 2))),
                    _ => s.push_str(&format!("\x1b[{}T", rng.range(1, 2))),
                }
                s
            }
            0 => format!("{}{}S", csi(rng), param(rng, rows)),
            1 => format!("{}{}T", csi(rng), param(rng, rows)),
            2 => format!("{}{}L", csi(rng), param(rng, rows)),
            3 => format!("{}{}M", csi(rng), param(rng, rows)),
            4 => {
                // DECSTBM: valid and invalid pairs
                let (t, b) = match rng.below(6) {
                    0 => (String::new(), String::new()),
                    1 => {
                        let t = rng.range(1, rows);
                        let b = rng.range(1, rows);
                        (t.to_string(), b.to_string())
                    }
                    2 => {
                        let t = rng.range(1, rows);
                        let b = rng.range(t, rows);
                        (t.to_string(), b.to_string())
                    }
                    3 => (param(rng, rows), param(rng, rows)),
                    4 => (String::new(), rng.range(1, rows + 1).to_string()),
                    _ => (rng.range(1, rows).to_string(), String::new()),
                };
                if rng.chance(10) {
                    format!("{}{}r", csi(rng), t)
                } else {
                    format!("{}{};{}r", csi(rng), t, b)
                }
            }
            5 => "\n".to_string(),
            6 => "\x1bM".to_string(),
            7 => "\u{85}".to_string(),
            _ => "\x1bD".to_string(),
        },
        K_SGR => {
            if rng.chance(6) {
                // at and beyond the capacity of 32 parameters: every slot up to the last one must still count
                let n = *rng.pick(&[30usize, 31, 32, 32, 33, 34, 40]);
                let codes = ["1", "3", "4", "5", "7", "9", "31", "42", "0", "22", "2"];
                let body: Vec<&str> = (0..n).map(|i| if i + 4 >= n.min(33) { *rng.pick(&codes) } else { *rng.pick(&["0", "", "39", "49"]) }).collect();
                return format!("{}{}m", csi(rng), body.join(";"));
            }
            if rng.chance(10) {
                // near misses: NOT select-graphic-rendition - a private marker or an intermediate before the final m
                // (xterm's modifyOtherKeys CSI > 4 ; 2 m and friends) must leave the pen alone
                if rng.chance(60) {
                    format!("{}{}{}m", csi(rng), rng.pick(&[">", "<", "=", "?"]), sgr_params(rng))
                } else {
                    format!("{}{}{}m", csi(rng), sgr_params(rng), rng.pick(&[" ", "$", "!", "\"", "#"]))
                }
            } else {
                format!("{}{}m", csi(rng), sgr_params(rng))
            }
        }
        K_MODE => {
            let hl = *rng.pick(&['h', 'l']);
            if rng.chance(70) {
                let mut ms: Vec<String> = Vec::new();
                for _ in 0..rng.range(1, 2) {
                    ms.push(
                        rng.pick(&["1", "6", "7", "25", "6", "7", "7", "3", "1000", "2004", "", "0", "12", "66"])
                            .to_string(),
                    );
                }
                format!("{}?{}{}", csi(rng), ms.join(";"), hl)
            } else {
                format!("{}{}{}", csi(rng), rng.pick(&["4", "20", "4;20", "4", "2", "", "12", "20;4"]), hl)
            }
        }
        K_TABS => match rng.weighted(&[20, 10, 8, 8, 8, 14, 14, 4, 4]) {
            0 => "\t".to_string(),
            1 => "\x1bH".to_string(),
            2 => "\u{88}".to_string(),
            3 => format!("{}{}W", csi(rng), rng.pick(&["", "0", "2", "5", "1", "3"])),
            4 => format!("{}{}g", csi(rng), rng.pick(&["", "0", "3", "1", "2"])),
            5 => format!("{}{}I", csi(rng), param(rng, cols / 8 + 1)),
            6 => format!("{}{}Z", csi(rng), param(rng, cols / 8 + 1)),
            7 => format!("{}{}G", csi(rng), rng.range(1, cols + 1)),
            _ => format!("{}{}C", csi(rng), rng.range(1, 9)),
        },
        K_STRING => {
            let intro = *rng.pick(&[
                "\x1b]", "\u{9d}", "\x1bP", "\u{90}", "\x1bX", "\u{98}", "\x1b^", "\u{9e}", "\x1b_", "\u{9f}",
            ]);
            let is_osc = intro == "\x1b]" || intro == "\u{9d}";
            let is_dcs = intro == "\x1bP" || intro == "\u{90}";
            let mut s = String::from(intro);
            if is_dcs && rng.chance(60) {
                s.push_str(*rng.pick(&["1;2", "?1", "$q", "1$", ":", "1:2", "+q", "0;1|", ">|", "1;2 3", "<", "1 :", "0:1:2:3:4:5:6", "1:2:3:4:5:6:7:8;9", "1;2:3:4:5:6:7:8"]));
                if rng.chance(70) {
                    s.push(*rng.pick(&['q', 'p', '|', '{', '@', '~']));
                }
            }
            for _ in 0..rng.range(0, 8) {
                let c = match rng.weighted(&[50, 15, 15, 10, 10]) {
                    0 => char::from_u32(0x20 + rng.below(0x5f) as u32).unwrap(),
                    1 => char::from_u32(0xa0 + rng.below(0x200) as u32).unwrap(),
                    2 => *rng.pick(&['\n', '\r', '\t', '\x08', '\x00', '\x0e', '\x1f', '\x1c', '\x19', '\x17']),
                    3 => *rng.pick(&[';', ':', '[', ']', 'm', 'c', 'H', '\\', '0', '?', '\u{7f}']),
                    _ => {
                        if is_osc {
                            'x'
                        } else {
                            '\x07'
                        }
                    }
                };
                s.push(c);
            }
            match rng.weighted(&[40, 30, 20, 5, 5]) {
                0 => s.push_str("\x1b\\"),
                1 => s.push('\u{9c}'),
                2 => {
                    if is_osc {
                        s.push('\x07')
                    } else {
                        s.push('\u{9c}')
                    }
                }
                3 => s.push('\x18'),
                _ => {} // unterminated
            }
            s
        }
        K_MALFORMED => match rng.weighted(&[12, 10, 12, 12, 10, 10, 8, 10, 8, 8]) {
            0 => "\x1b".to_string(),
            1 => format!("{}{}", csi(rng), rng.pick(&["", "1", "1;", "?", "?1;2", ">", "1 ", " ", "1:", ":"])),
            2 => {
                // unimplemented finals / private markers / intermediates
                let f = char::from_u32(0x40 + rng.below(0x3f) as u32).unwrap();
                let pre = *rng.pick(&["", "?", ">", "<", "=", "!", "", ""]);
                let inter = *rng.pick(&["", "", " ", "$", "\"", "'", "#", "!", "+", "*"]);
                format!("{}{}{}{}{}", csi(rng), pre, param(rng, cols), inter, f)
            }
            3 => {
                // many parameters / sub-parameters
                let n = *rng.pick(&[31usize, 32, 33, 40, 3, 16]);
                let sep = *rng.pick(&[";", ";", ":"]);
                let body: Vec<String> = (0..n).map(|i| ((i * 7 + rng.below(3)) % 110).to_string()).collect();
                format!("{}{}{}", csi(rng), body.join(sep), rng.pick(&['m', 'H', 'h', 'r', 'A', 'l']))
            }
            4 => {
                // control inside a sequence
                let c = *rng.pick(&["\n", "\r", "\x08", "\t", "\x18", "\x1a", "\x1b", "\u{85}", "\u{9c}", "\x00"]);
                format!("{}{}{}{}{}", csi(rng), param(rng, rows), c, param(rng, cols), rng.pick(&['H', 'A', 'm', 'J', 'X']))
            }
            5 => {
                let mut s = String::new();
                for _ in 0..rng.range(1, 6) {
                    s.push(char::from_u32(rng.below(0xa0) as u32).unwrap());
                }
                s
            }
            6 => format!("{}{}", csi(rng), rng.pick(&["1<2m", "1;2:3<", "?1?2h", "1 2m", "1 !p", "!1p", "1$2p", ">!p", "?1!p"])),
            7 => {
                if rng.chance(30) {
                    // an introducer or control arriving in the middle of an ESC / CSI sequence with intermediates
                    let pre = *rng.pick(&["\x1b(", "\x1b#", "\x1b $", "\x1b[1$", "\x1b[!", "\x1b[1;2 ", "\x1b[:", "\x1b[1:2<", "\x1bP1$", "\x1bP:"]);
                    let mid = *rng.pick(&["\x1b", "\x18", "\x1a", "\n", "\r", "\x08", "\u{9b}", "\u{84}", "\u{9c}", "\x00", "\x1f"]);
                    let post = *rng.pick(&["[5C", "[2;2H", "M", "c", "(0", "[31m", "a", "D", "[?6h"]);
                    format!("{}{}{}", pre, mid, post)
                } else {
                    format!("\x1b{}{}", rng.pick(&[" ", "#", "(", ")", "*", "+", "%", "$", " #", "#(", "( ", "!"]), rng.pick(&["8", "0", "B", "A", "F", "G", "@", "~", "3", "\u{e9}"]))
                }
            }
            8 => {
                // params with huge values / leading zeros / colon forms on non-SGR
                let v = *rng.pick(&["00001", "99999", "1:2", "1:2:3:4:5:6:7:8", "::", ";;", "123456789012", "0:7", "0:1:2", "0:"]);
                let f = *rng.pick(&['A', 'H', 'X', 'm', 'r', 'b']);
                // a huge REP with auto-wrap on scrolls tens of thousands of rows: quadratic in the list model
                let pre = if f == 'b' && (v == "99999" || v == "123456789012") { "\x1b[?7l" } else { "" };
                format!("{}{}{}{}", pre, csi(rng), v, f)
            }
            _ => format!("{}8;{};{}t", csi(rng), param(rng, rows), param(rng, cols)),
        },
        K_SAVE => rng
            .pick(&[
                "\x1b7", "\x1b8", "\x1b[s", "\x1b[u", "\x1b[?1048h", "\x1b[?1048l", "\x1b7", "\x1b8", "\u{9b}s", "\u{9b}u",
            ])
            .to_string(),
        K_REP => {
            // the model is a list machine: a REP that scrolls tens of thousands of rows is quadratic
            // there, so huge counts are only generated with auto-wrap off (no scrolling); the
            // model-free stress mode covers huge counts with wrapping on the implementation
            let p = param(rng, cols);
            let big = p.parse::<u64>().map_or(false, |v| v > 120);
            if big {
                format!("\x1b[?7l{}{}b", csi(rng), p)
            } else {
                format!("{}{}b", csi(rng), p)
            }
        }
        K_CHARSET => rng
            .pick(&["\x0e", "\x0f", "\x1b(0", "\x1b(B", "\x1b)0", "\x1b)B", "\x1b(A", "\x1b)1", "\x1b(0", "\x0e"])
            .to_string(),
        K_RESET => rng.pick(&["\x1bc", "\x1b[!p", "\u{9b}!p", "\x1b[!p", "\x1bc"]).to_string(),
        K_ALT => {
            let hl = *rng.pick(&['h', 'l']);
            format!("{}?{}{}", csi(rng), rng.pick(&["47", "1047", "1049", "1049", "1047", "1049;6", "7;1047", "1048;47"]), hl)
        }
        _ => unreachable!(),
    }
}

/// state-shaping prefixes that reach rare states on purpose
pub fn shaping(rng: &mut Rng, ctx: &Ctx) -> Vec<Op> {
    let mut ops = Vec::new();
    let cols = ctx.cols;
    let rows = ctx.rows;
    // fill the screen with text
    if rng.chance(55) {
        let mut s = String::new();
        let n = rng.range(1, rows + 3);
        for i in 0..n {
            let len = match rng.below(5) {
                0 => cols,
                1 => 2 * cols,
                2 => rng.range(0, cols),
                3 => cols + rng.range(1, cols),
                _ => rng.range(1, 3 * cols),
            };
            for j in 0..len {
                if rng.chance(12) {
                    s.push(' ');
                } else {
                    s.push((b'a' + ((i * 5 + j) % 26) as u8) as char);
                }
            }
            if i + 1 < n {
                s.push_str("\r\n");
            }
        }
        ops.push(Op::Str(s));
    }
    if rng.chance(25) {
        ops.push(Op::Str(format!("\x1b[{}m", sgr_params(rng))));
    }
    if rng.chance(35) && rows >= 2 {
        let t = rng.range(1, rows - 1);
        let b = rng.range(t + 1, rows);
        ops.push(Op::Str(format!("\x1b[{};{}r", t, b)));
    }
    if rng.chance(20) {
        ops.push(Op::Str("\x1b[?6h".into()));
    }
    if rng.chance(12) {
        ops.push(Op::Str("\x1b[4h".into()));
    }
    if rng.chance(12) {
        ops.push(Op::Str("\x1b[?7l".into()));
    }
    if rng.chance(8) {
        ops.push(Op::Str("\x1b[20h".into()));
    }
    if rng.chance(15) {
        ops.push(Op::Str(format!("\x1b[{};{}H\x1b7", rng.range(1, rows), rng.range(1, cols))));
    }
    if rng.chance(15) {
        ops.push(Op::Str(format!("\x1b[?{}h", rng.pick(&["47", "1047", "1049"]))));
        if rng.chance(50) {
            ops.push(Op::Str("xy\r\nz".into()));
        }
    }
    // cursor placement: wrap-pending, above/below region, anywhere
    match rng.below(5) {
        0 => ops.push(Op::Str(format!("\x1b[{};{}Hq", rng.range(1, rows), cols))),
        1 => ops.push(Op::Str(format!("\x1b[{};{}H", rng.range(1, rows), rng.range(1, cols)))),
        2 => ops.push(Op::Str(format!("\x1b[?6l\x1b[{};{}H", rng.range(1, rows), rng.range(1, cols)))),
        3 => ops.push(Op::Str("\x1b[?6l\x1b[999;1H".into())),
        _ => {}
    }
    if rng.chance(4) && rows >= 4 {
        // origin mode on with the cursor outside the region (reachable only through DECRC)
        let a = rng.range(1, rows - 2);
        ops.push(Op::Str(format!("{}\x1b[?6h\x1b[{};{}r\x1b[1;{}H\x1b7\x1b[{};{}r\x1b8{}", if rng.chance(50) { "\x1b[?7l" } else { "" }, a, a + 1, rng.range(1, cols), a + 2, rows, if rng.chance(50) { "\x1b[?7h" } else { "" })));
    }
    if rng.chance(12) {
        ops.push(Op::Flush);
    }
    ops
}

pub fn geometry(rng: &mut Rng, p: &Profile) -> (usize, usize) {
    match rng.weighted(&[10, 8, 8, 60, 6, 4, 4]) {
        0 => (1, 1),
        1 => (1, rng.range(1, p.max_rows)),
        2 => (rng.range(1, p.max_cols), 1),
        3 => (rng.range(2, p.max_cols), rng.range(2, p.max_rows)),
        4 => (rng.range(2, 4), rng.range(2, 3)),
        5 => (*rng.pick(&[8, 16, 9, 17, 24]), rng.range(1, 4)),
        _ => (*rng.pick(&[20, 40, 80]), *rng.pick(&[5, 10, 24])),
    }
}

pub fn limit(rng: &mut Rng) -> Option<usize> {
    *rng.pick(&[None, None, Some(0), Some(0), Some(1), Some(2), Some(3), Some(9), Some(10), Some(11), Some(25)])
}

/// a structured alternate-screen excursion with resizes in between: enter (47/1047/1049), optional
/// output, one or two resizes (same width or not, taller / shorter), cursor parked on a row chosen
/// relative to the OLD and NEW heights, then leave with any of the three mode numbers
pub fn excursion(rng: &mut Rng, ctx: &mut Ctx, p: &Profile) -> Vec<Op> {
    let mut ops = Vec::new();
    let modes = ["47", "1047", "1049"];
    if rng.chance(35) {
        // a primary screen full of short lines with the cursor at the bottom: what a shorter screen on return must push
        // into the scrollback (above the cursor), never cut
        let mut s = String::from("\x1b[r\x1b[999;1H");
        for i in 0..(ctx.rows + rng.range(0, 2)) {
            s.push_str(&format!("\r\nl{}", i + 1));
        }
        ops.push(Op::Str(s));
    }
    ops.push(Op::Str(format!("\x1b[?{}h", rng.pick(&modes))));
    if rng.chance(50) {
        ops.push(Op::Str(token(rng, ctx, K_TEXT)));
    }
    let (old_c, old_r) = (ctx.cols, ctx.rows);
    for _ in 0..rng.range(1, 2) {
        let c = if rng.chance(50) { ctx.cols } else { rng.range(1, p.max_cols + 3) };
        let r = match rng.below(4) {
            0 => ctx.rows,
            1 => ctx.rows + rng.range(1, 3),
            2 => (ctx.rows.saturating_sub(rng.range(1, 2))).max(1),
            _ => rng.range(1, p.max_rows + 2),
        };
        ops.push(Op::Resize(c, r));
        ctx.cols = c;
        ctx.rows = r;
        if rng.chance(70) {
            // 1-based row candidates around the old and new heights
            let row = *rng.pick(&[old_r + 1, old_r, old_r.saturating_sub(1).max(1), ctx.rows, 1, ctx.rows.saturating_sub(1).max(1)]);
            let col = *rng.pick(&[1, old_c, old_c + 1, ctx.cols, ctx.cols.saturating_sub(1).max(1)]);
            ops.push(Op::Str(format!("\x1b[{};{}H", row, col)));
            if rng.chance(30) {
                ops.push(Op::Str("x".into()));
            }
        }
        if rng.chance(35) && ctx.rows >= 2 {
            // a scroll region set during the excursion (margins are shared by both screens)
            let t = rng.range(1, ctx.rows - 1);
            let b = rng.range(t + 1, ctx.rows);
            ops.push(Op::Str(format!("\x1b[{};{}r", t, b)));
        }
        if rng.chance(30) {
            let k = rng.weighted(&p.weights);
            ops.push(Op::Str(token(rng, ctx, k)));
        }
    }
    // leave: mostly a single mode, sometimes inside a LIST with flag modes or DECOM before / after it (every mode of a list is
    // executed in order, each with its own reflow / restore)
    let m = *rng.pick(&modes);
    let leave = match rng.below(10) {
        0 | 4 => format!("\x1b[?{};6l", m),
        1 => format!("\x1b[?6;{}l", m),
        2 => format!("\x1b[?{};7l", m),
        3 => format!("\x1b[?25;{}l", m),
        _ => format!("\x1b[?{}l", m),
    };
    ops.push(Op::Str(leave));
    if rng.chance(40) {
        // probe the region afterwards
        ops.push(Op::Str(rng.pick(&["\x1b[999;1H\n\n", "\x1b[2S", "\x1b[1;1H\x1bM", "\x1b[?6h\x1b[1;1HQ\x1b[?6l"]).to_string()));
    }
    ops
}

/// a saved cursor that outlives a shrinking resize of the OTHER screen: save far right / down on one screen,
/// switch, shrink, switch back, restore (any of the save / restore / switch spellings)
pub fn stale_ctx(rng: &mut Rng, ctx: &mut Ctx, p: &Profile) -> Vec<Op> {
    let mut ops = Vec::new();
    let modes = ["47", "1047", "1049"];
    let on_alt = rng.chance(60);
    if on_alt {
        ops.push(Op::Str(format!("\x1b[?{}h", rng.pick(&modes))));
    }
    ops.push(Op::Str(format!("\x1b[{};{}H", ctx.rows, ctx.cols)));
    if rng.chance(40) {
        ops.push(Op::Str("x".into()));
    }
    ops.push(Op::Str(rng.pick(&["\x1b7", "\x1b[s", "\x1b[?1048h"]).to_string()));
    // switch to the other screen
    if on_alt {
        ops.push(Op::Str(format!("\x1b[?{}l", rng.pick(&["47", "1047"]))));
    } else {
        ops.push(Op::Str(format!("\x1b[?{}h", rng.pick(&["47", "1047"]))));
    }
    let c = if rng.chance(70) { rng.range(1, ctx.cols) } else { ctx.cols };
    let r = if rng.chance(70) { rng.range(1, ctx.rows) } else { ctx.rows };
    ops.push(Op::Resize(c, r));
    ctx.cols = c;
    ctx.rows = r;
    if rng.chance(30) {
        let k = rng.weighted(&p.weights);
        ops.push(Op::Str(token(rng, ctx, k)));
    }
    // back, then restore
    if on_alt {
        ops.push(Op::Str(format!("\x1b[?{}h", rng.pick(&["47", "1047"]))));
    } else {
        ops.push(Op::Str(format!("\x1b[?{}l", rng.pick(&["47", "1047"]))));
    }
    ops.push(Op::Str(rng.pick(&["\x1b8", "\x1b[u", "\x1b[?1048l"]).to_string()));
    if rng.chance(50) {
        ops.push(Op::Str("yz".into()));
    }
    ops
}

/// text wrapped on the last row BELOW a scroll region (the wrap neither scrolls nor moves down; the row must not become
/// soft-wrapped), then the resizes on which a wrong wrap mark shows: a narrower (divisor) width with the cursor in the
/// wrap-pending column, or a taller screen, a new line typed on the fresh row and another width change
pub fn below_region(rng: &mut Rng, ctx: &mut Ctx) -> Vec<Op> {
    let mut ops = Vec::new();
    let (cols, rows) = (ctx.cols, ctx.rows);
    let mut s = String::new();
    if rows >= 3 {
        let b = rng.range(2, rows - 1);
        let t = rng.range(1, b - 1).max(1);
        s.push_str(&format!("\x1b[{};{}r", t, b));
    }
    s.push_str("\x1b[?7h");
    s.push_str(&format!("\x1b[{};1H", rows));
    let n = if rng.chance(60) { cols * 2 } else { cols + rng.range(1, cols.max(1)) };
    for i in 0..n {
        s.push((b'a' + (i % 26) as u8) as char);
    }
    ops.push(Op::Str(s));
    if rng.chance(50) {
        // narrower, mostly a divisor of the old width
        let divs: Vec<usize> = (1..cols).filter(|d| cols % d == 0).collect();
        let c = if !divs.is_empty() && rng.chance(70) { *rng.pick(&divs) } else { rng.range(1, cols) };
        ops.push(Op::Resize(c, rows));
        ctx.cols = c;
    } else {
        let r = rows + rng.range(1, 2);
        ops.push(Op::Resize(cols, r));
        ctx.rows = r;
        ops.push(Op::Str(format!("{}XY", rng.pick(&["\r\n", "\x1b[999;1H", "\n\r"]))));
        let c = if rng.chance(50) { cols + rng.range(1, 3) } else { rng.range(1, cols) };
        ops.push(Op::Resize(c, r));
        ctx.cols = c;
    }
    ops
}

/// bounded-exhaustive cases: case index -> (geometry, limit, sequence of DEPTH tokens from a fixed alphabet)
pub const EXH_TOKENS: [&str; 44] = [
    "a", "bc", "\r", "\n", "\x1bM", "\x1b[A", "\x1b[B", "\x1b[C", "\x1b[D", "\x1b[H", "\x1b[2;2H", "\x1b[999;999H",
    "\x1b[J", "\x1b[1J", "\x1b[K", "\x1b[1K", "\x1b[X", "\x1b[@", "\x1b[P", "\x1b[L", "\x1b[M", "\x1b[S", "\x1b[T",
    "\x1b[1;2r", "\x1b[2;3r", "\x1b[r", "\x1b[?6h", "\x1b[?7l", "\x1b[4h", "\x1b7", "\x1b8", "\x1b[?1049h",
    "\x1b[?1049l", "\x1b[?47h", "\x1b[?47l", "\t", "\x1bH", "\x1b[2b", "\x1b[41m", "\x1bc", "\x1b#8", "R11", "R22", "R31",
];
pub const EXH_GEOMS: [(usize, usize); 6] = [(1, 1), (2, 1), (1, 2), (2, 2), (3, 2), (2, 3)];

pub fn exhaustive_case(index: usize, depth: usize) -> Case {
    let g = EXH_GEOMS[index % EXH_GEOMS.len()];
    let mut k = index / EXH_GEOMS.len();
    let limit = if k % 2 == 0 { None } else { Some(0) };
    k /= 2;
    let mut ops = Vec::new();
    for _ in 0..depth {
        let t = EXH_TOKENS[k % EXH_TOKENS.len()];
        k /= EXH_TOKENS.len();
        match t {
            "R11" => ops.push(Op::Resize(1, 1)),
            "R22" => ops.push(Op::Resize(2, 2)),
            "R31" => ops.push(Op::Resize(3, 1)),
            _ => ops.push(Op::Str(t.to_string())),
        }
    }
    ops.push(Op::Flush);
    Case { cols: g.0, rows: g.1, limit, ops }
}

pub fn gen_case(rng: &mut Rng, p: &Profile) -> Case {
    if p.name == "exhaust3" {
        return exhaustive_case(rng.0 as usize, 3);
    }
    if p.name == "exhaust2" {
        return exhaustive_case(rng.0 as usize, 2);
    }
    let (cols, rows) = geometry(rng, p);
    let limit = limit(rng);
    let mut ctx = Ctx { cols, rows };
    let mut ops = Vec::new();
    if rng.chance(70) {
        ops.extend(shaping(rng, &ctx));
    }
    let n = rng.range(p.len.0, p.len.1);
    for _ in 0..n {
        if p.resize_pct > 0 && rng.chance(if p.name == "alt" { 6 } else { 2 }) {
            let ex = excursion(rng, &mut ctx, p);
            ops.extend(ex);
        } else if p.resize_pct > 0 && rng.chance(if p.name == "save" { 4 } else { 1 }) {
            let ex = stale_ctx(rng, &mut ctx, p);
            ops.extend(ex);
        } else if p.resize_pct > 0 && rng.chance(if p.name == "resize" { 3 } else { 1 }) {
            let ex = below_region(rng, &mut ctx);
            ops.extend(ex);
        } else if rng.chance(p.resize_pct) {
            let (c, r) = match rng.below(6) {
                0 => (ctx.cols, rng.range(1, p.max_rows + 2)),
                1 => (rng.range(1, p.max_cols + 3), ctx.rows),
                2 => (ctx.cols, ctx.rows),
                3 => (*rng.pick(&[1, 2, 8, 16, 24]), ctx.rows),
                _ => (rng.range(1, p.max_cols + 3), rng.range(1, p.max_rows + 2)),
            };
            ops.push(Op::Resize(c, r));
            ctx.cols = c;
            ctx.rows = r;
        } else if rng.chance(p.flush_pct) {
            ops.push(Op::Flush);
        } else {
            let k = rng.weighted(&p.weights);
            if (k == K_STRING || k == K_MALFORMED || k == K_C1) && rng.chance(70) {
                // delimit candidates for "inert" sequences so that the C20 statement sees them alone
                ops.push(Op::Mark);
                ops.push(Op::Str(token(rng, &ctx, k)));
                ops.push(Op::Mark);
            } else {
                ops.push(Op::Str(token(rng, &ctx, k)));
            }
        }
    }
    if rng.chance(60) {
        ops.push(Op::Flush);
    }
    Case { cols, rows, limit, ops }
}
