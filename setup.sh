#!/bin/bash
# MANIFEST.setup_cmd: build the framework from files on disk only (offline).
set -e
cd "$(dirname "$0")"
export CARGO_NET_OFFLINE=true
mkdir -p work .cache evidence replays
python3 translate/avt2coq.py /repo/src coq/Gen || { echo "translator failed on the current tree; using pinned tables"; cp coq/GenPinned/*.v coq/Gen/; }
(cd coq && coq_makefile -f _CoqProject -o Makefile >/dev/null && timeout 3400 make -j16 2>&1 | tail -5)
cp coq/model.ml coq/model.mli driver/
(cd driver && ocamlfind ocamlopt -package unix -linkpkg -O2 -w -a model.mli model.ml conv.ml oracles_glue.ml main.ml -o avt-driver)
(cd harness && cargo build --release --offline 2>&1 | tail -2)
echo "setup done"
