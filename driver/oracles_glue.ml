(* Glue between the driver and the extracted oracles (Coq: Oracles/*.v). *)
type str = string
open Model

(* step oracles: (pre, function, post) *)
let step_oracles (bump : str -> unit) (pre : vt) (f : func) (post : vt) : (str * str) list =
  let r = ref [] in
  let chk prop name b =
    bump (prop ^ "." ^ name);
    if not b then r := (prop, name) :: !r
  in
  chk "C02" "state" (holds_C02_state post);
  chk "C04" "print" (holds_C04 pre f post);
  (* "marks the row it left as soft-wrapped": claimed outside the known-finding class KF-C04-1 (reported by the caller) *)
  if not (kf1_C04 pre f) then chk "C04" "wrap_mark" (holds_C04_wrapmark pre f post);
  chk "C05" "cursor" (holds_C05 pre f post);
  chk "C06" "scroll" (holds_C06 pre f post);
  chk "C06" "margins_modes" (holds_C06_modes pre f post);
  chk "C07" "edit" (holds_C07 pre f post);
  (* "a row stops being soft-wrapped when its tail is erased or characters are deleted from it": claimed outside the
     known-finding class KF-C07-1 (EL 1 / ED 1 reaching the end of a soft-wrapped row; reported by the caller) *)
  if not (kf1_C07 pre f) then chk "C07" "wrap_mark" (holds_C07_wrapmark pre f post);
  chk "C08" "sgr" (holds_C08 pre f post);
  chk "C16" "alt" (holds_C16 pre f post);
  (* C08: blanks produced by entering the alternate screen carry the current pen (same clause as C16's entry statement) *)
  (match f with
   | Decset _ when pre.vterm.active = Primary && post.vterm.active = Alternate ->
       chk "C08" "alt_entry_blank_pen" (holds_C16 pre f post)
   | _ -> ());
  (* C06: "DECSTBM takes effect only for 1 <= top < bottom <= rows and otherwise leaves the margins as they were"
     (the margins clause of spec_cursor) *)
  (match f with Decstbm (_, _) -> chk "C06" "decstbm_region" (holds_C05 pre f post) | _ -> ());
  (* C08: the cells REP writes carry the current pen (the pen clause of the REP specification) *)
  (match f with Rep _ -> chk "C08" "rep_pen" (holds_C04 pre f post) | _ -> ());
  (* C16: a soft reset while the alternate screen is showing must not touch the parked primary's saved cursor
     (the one ?1049l restores) - the other-screen clause of C17's DECSTR statement *)
  (match f with
   | Decstr when pre.vterm.active = Alternate -> chk "C16" "decstr_parked_ctx" (holds_C17 pre f post)
   | _ -> ());
  chk "C16" "alt_resized" (holds_C16_resized pre f post);
  (* every return to the primary screen, any mode list, any scrollback limit: the primary's logical lines come back
     re-wrapped but never altered (at most cut short), exactly as parked when the size is unchanged *)
  chk "C16" "return_text" (holds_C16_return_text pre f post);
  chk "C16" "return_list" (holds_C16_return_list pre f post);
  chk "C16" "return_list_any" (holds_C16_return_list_any pre f post);
  chk "C17" "saved" (holds_C17 pre f post);
  chk "C17" "per_screen_contexts" (holds_C17_switch pre f post);
  chk "C18" "tabs" (holds_C18 pre f post);
  (match f with
   | Ht | Cht _ | Cbt _ -> chk "C18" "tab_moves" (holds_C05 pre f post)   (* HT/CHT/CBT go to the n-th next / previous stop *)
   | _ -> ());
  chk "C19" "ris" (holds_C19 pre f post);
  chk "C03" "sgr_params_as_written" (holds_C03_sgr f post);
  !r

(* chunk of characters that emitted no function *)
let nofn_oracles (bump : str -> unit) (pre : vt) (cs : n list) (post : vt) : (str * str) list =
  let r = ref [] in
  bump "C20.inert";
  if claims_inert pre cs then bump "C20.inert_claimed";
  if not (holds_C20 pre cs post) then r := ("C20", "inert") :: !r;
  if pre.vterm <> post.vterm then r := ("C20", "terminal_changed_without_function") :: !r;
  !r

(* feed_str("") / resize calls *)
let call_oracles (bump : str -> unit) (pre : vt) (o : op) (post : vt) (ls : nat list) (_dr : line list)
    (prev_view : line list) : (str * str) list =
  let r = ref [] in
  let chk prop name b =
    bump (prop ^ "." ^ name);
    if not b then r := (prop, name) :: !r
  in
  chk "C02" "call" (holds_C02_call o post ls);
  chk "C13" "bound" (holds_C13 post);
  chk "C15" "sound" (holds_C15 prev_view post ls);
  (match o with
   | Resize (_, _) ->
       chk "C10" "resize" (holds_C10 pre post);
       (* "rows below the cursor may be dropped to keep it on screen": the conclusion cr' < nr /\ cc' <= nc of the pinned
          theorem C10_resize_total, on every resize (both screens, every limit) *)
       chk "C10" "cursor_on_screen"
         (Nat.ltb post.vterm.cur_row post.vterm.rows && Nat.leb post.vterm.cur_col post.vterm.cols);
       if Sys.getenv_opt "DRIVER_C10_DEBUG" <> None && not (holds_C10 pre post) then begin
         let show (v : vt) =
           let t = v.vterm in
           let rec ion = function O -> 0 | S k -> 1 + ion k in
           let rec iop = function XH -> 1 | XO p -> 2 * iop p | XI p -> 2 * iop p + 1 in
           let ion_n = function N0 -> 0 | Npos p -> iop p in
           let (k, o) = curs t.buf t.cur_col t.cur_row in
           Printf.printf "  size=%dx%d cursor=(%d,%d) pend=%b k=%d o=%d nlines=%d\n" (ion t.cols) (ion t.rows) (ion t.cur_col) (ion t.cur_row) t.pend (ion k) (ion o) (List.length t.buf.lines);
           List.iter (fun (l : line) -> Printf.printf "    row[%s]%s\n" (String.concat "" (List.map (fun c -> let x = ion_n c.ch in if x < 128 && x >= 32 then String.make 1 (Char.chr x) else "?") l.cells)) (if l.wrapped then " W" else "")) t.buf.lines;
           List.iter (fun l -> Printf.printf "    log[%s]\n" (String.concat "" (List.map (fun c -> let x = ion_n c.ch in if x < 128 && x >= 32 then String.make 1 (Char.chr x) else "?") l))) (logical_t t.buf.lines)
         in
         print_endline "C10 DEBUG pre:"; show pre; print_endline "C10 DEBUG post:"; show post
       end;
       chk "C06" "margins_resize" (holds_C06_resize pre post);
       chk "C05" "margins_resize" (holds_C06_resize pre post);
       chk "C17" "resize" (holds_C17_resize pre post);
       chk "C18" "resize" (holds_C18_resize pre post);
       if tabs_are_default pre.vterm then chk "C18" "fresh" (tabs_are_default post.vterm)
   | _ -> ());
  !r
