(* Glue between the driver and the extracted oracles (Coq: Oracles/*.v). *)
type str = string
open Model

let step_oracles (_bump : str -> unit) (_pre : vt) (_f : func) (_post : vt) : (str * str) list = []
let nofn_oracles (_bump : str -> unit) (_pre : vt) (_cs : n list) (_post : vt) : (str * str) list = []
let call_oracles (_bump : str -> unit) (_pre : vt) (_o : op) (_post : vt) (_ls : nat list) (_dr : line list) :
    (str * str) list = []
