(* Correspondence driver: replays harness traces through the extracted Coq model.

   For every checkpoint the model is started from the IMPLEMENTATION's own pre-state and
   must produce exactly the implementation's post-state, the same emitted function, the
   same Changes (lines + drained scrollback), the same panic verdict and the same query
   results (dump, text, geometry).  The extracted oracles (holds_Cxx) are evaluated on the
   implementation's (pre, function, post) triples.

   Output (stdout), one record per line:
     DIV case=<id> step=<k> op=<C|L|R> fn=<kind> comps=<c1,c2,...>
     ORA prop=<Cxx> case=<id> step=<k> fn=<kind> what=<text>
     KF  prop=<Cxx> id=<finding> case=<id> step=<k>
     STAT <json>
*)
open Model
open Conv

let stats : (str, int) Hashtbl.t = Hashtbl.create 64
let bump k = Hashtbl.replace stats k (1 + try Hashtbl.find stats k with Not_found -> 0)
let seen : (int, unit) Hashtbl.t = Hashtbl.create 4096
let nontrivial = ref 0
let steps = ref 0
let divs = ref 0
let oracle_evals : (str, int) Hashtbl.t = Hashtbl.create 32
let obump k = Hashtbl.replace oracle_evals k (1 + try Hashtbl.find oracle_evals k with Not_found -> 0)

let n_list_of_toks (t : toks) : n list =
  let k = int t in
  list_of k (fun () -> n_of_int (int t))

let last_before : parser0 option ref = ref None

(* per-step CPU budget for the model: a changed implementation can hand the model a pre-state / input on which the list model is
   quadratic (e.g. a huge REP with auto-wrap still on because the preceding CSI ?7l was misparsed); the step is then reported as a
   divergence `model.timeout` and the run goes on, so that the statements are still evaluated on the rest of the run *)
exception Step_timeout
let step_budget_s = 3.0
let () = Sys.set_signal Sys.sigvtalrm (Sys.Signal_handle (fun _ -> raise Step_timeout))
let arm () = ignore (Unix.setitimer Unix.ITIMER_VIRTUAL { Unix.it_interval = 0.0; it_value = step_budget_s })
let disarm () = ignore (Unix.setitimer Unix.ITIMER_VIRTUAL { Unix.it_interval = 0.0; it_value = 0.0 })

let run_chars (v : vt) (cs : n list) : (vt * func option) res * int =
  (* feed all but the last char expecting no function; returns the function of the last one.
     Also returns how many of the earlier chars emitted a function (should be 0).
     [last_before] receives the parser state right before the last character. *)
  let early = ref 0 in
  last_before := None;
  let rec go v = function
    | [] -> Model.Ok (v, None)
    | [ c ] -> (
        last_before := Some v.vparser;
        match feedM v.vparser c with
        | Panic s -> Panic s
        | Model.Ok (p, f) -> (
            match f with
            | None -> Model.Ok ({ v with vparser = p }, None)
            | Some fn -> (
                match execute v.vterm fn with
                | Panic s -> Panic s
                | Model.Ok t -> Model.Ok ({ vparser = p; vterm = t }, Some fn))))
    | c :: r -> (
        match feedM v.vparser c with
        | Panic s -> Panic s
        | Model.Ok (p, f) -> (
            match f with
            | None -> go { v with vparser = p } r
            | Some fn -> (
                incr early;
                match execute v.vterm fn with
                | Panic s -> Panic s
                | Model.Ok t -> go { vparser = p; vterm = t } r)))
  in
  let r = go v cs in
  (r, !early)

(* ---- exhaustive parser sweep (SW / RUN records) ---- *)
let breakpoints : int list =
  let pts = ref [ int_of_n hi_threshold ] in
  List.iter
    (fun (pats, _) ->
      List.iter (fun ((_, lo), hi) -> pts := int_of_n lo :: (int_of_n hi + 1) :: !pts) pats)
    feed_arms;
  List.sort_uniq compare !pts

let sweep_parser : parser0 option ref = ref None
(* the same pre-state reached by the SPECIFICATION parser (Spec/, independent of the regenerated tables) *)
let sweep_spec_parser : parser0 ref = ref init_parser
let sweep_intro : int list ref = ref []
let sweep_state = ref 0
let sweep_cells = ref 0
let sweep_points = ref 0
let sweep_runs = ref 0

let feed_all (p : parser0) (cs : n list) : parser0 option =
  List.fold_left
    (fun acc c -> match acc with None -> None | Some p -> (match feedM p c with Model.Ok (p', _) -> Some p' | Panic _ -> None))
    (Some p) cs

let model_sig (p : parser0) (c : int) : str =
  match feedM p (n_of_int c) with
  | Panic s -> "PANIC " ^ string_of_int (int_of_nat s)
  | Model.Ok (p', f) ->
      let st = string_of_int (int_of_pstate p'.pst) in
      (match f with
       | None -> st ^ " -"
       | Some (Print x) when int_of_n x = c -> st ^ " Print self"
       | Some f -> st ^ " " ^ str_of_func f)

let spec_sig (p : parser0) (c : int) : str =
  let p', f = spec_feed p (n_of_int c) in
  let st = string_of_int (int_of_pstate p'.pst) in
  match f with
  | None -> st ^ " -"
  | Some (Print x) when int_of_n x = c -> st ^ " Print self"
  | Some f -> st ^ " " ^ str_of_func f

let () =
  let file = Sys.argv.(1) in
  let ic = open_in file in
  let case_id = ref (-1) in
  let step = ref 0 in
  let pre : vt option ref = ref None in
  let pending_op : [ `None | `Chars of n list * Conv.str | `Flush | `Resize of int * int ] ref = ref `None in
  let pending_out : (nat list * line list) option ref = ref None in
  let emit_div op fn comps =
    incr divs;
    Printf.printf "DIV case=%d step=%d op=%s fn=%s comps=%s\n" !case_id !step op fn (String.concat "," comps)
  in
  let hash_state (s : str) = Hashtbl.hash s in
  let last_state_line = ref "" in
  let prev_view : line list ref = ref [] in
  let span_claim = ref false in
  let span_known = ref false in
  let span_left = ref 0 in
  let case_geom = ref (0, 0, -1) in
  let x09_input : n list option ref = ref None in
  let x09_text : n list list ref = ref [] in
  let x12_pending : int option ref = ref None in
  let x12_states : (int * vt) list ref = ref [] in
  let x11_pending : (int * vt option) option ref = ref None in
  let x11_class : str ref = ref "" in
  let x11_failed = ref false in
  let ora prop what = Printf.printf "ORA prop=%s case=%d step=%d fn=rel what=%s\n" prop !case_id !step what in
  let kf prop id = Printf.printf "KF prop=%s id=%s case=%d step=%d\n" prop id !case_id !step in
  let strs_of_toks t = let k = int t in list_of k (fun () -> n_list_of_toks t) in
  (try
     while true do
       let l = input_line ic in
       let tag = match String.index_opt l ' ' with Some i -> String.sub l 0 i | None -> l in
       match tag with
       | "CASE" ->
           let t = toks_of_line l in
           case_id := int t;
           span_left := 0; span_claim := false;
           (let c = int t in let r = int t in let l = int t in case_geom := (c, r, l));
           x09_input := None; x12_pending := None; x12_states := []; x11_pending := None; x11_class := ""; x11_failed := false;
           if !case_id mod 97 = 0 then Printf.printf "SAMPLE %s\n" l;
           if Sys.getenv_opt "DRIVER_DEBUG" <> None then (prerr_endline ("case " ^ string_of_int !case_id); flush stderr);
           step := 0;
           pre := None;
           pending_op := `None;
           pending_out := None;
           bump "cases"
       | "MB" -> (
           let t = toks_of_line l in
           let cs = n_list_of_toks t in
           match !pre with
           | Some v ->
               span_left := List.length cs;
               span_claim := claims_inert v cs;
               span_known := known_C20 cs;
               if !span_claim then obump "C20.span_claimed"
           | None -> ())
       | "C" ->
           let t = toks_of_line l in
           let cs = n_list_of_toks t in
           if !case_id mod 97 = 0 && !step < 6 then Printf.printf "SAMPLE case=%d step=%d %s\n" !case_id !step l;
           pending_op := `Chars (cs, "-")
       | "FN" -> (
           let s = String.sub l 3 (String.length l - 3) in
           match !pending_op with `Chars (cs, _) -> pending_op := `Chars (cs, String.trim s) | _ -> ())
       | "L" -> pending_op := `Flush
       | "R" ->
           let t = toks_of_line l in
           let c = int t in
           let r = int t in
           pending_op := `Resize (c, r)
       | "O" ->
           let t = toks_of_line l in
           let k = int t in
           let ls = list_of k (fun () -> nat_of_int (int t)) in
           let m = int t in
           let dr = list_of m (fun () -> line t) in
           pending_out := Some (ls, dr)
       | "S" when !x12_pending <> None ->
           let v = vt_of_line l in
           (match !x12_pending with Some k -> x12_states := (k, v) :: !x12_states | None -> ());
           x12_pending := None;
           if List.length !x12_states = 3 then begin
             let a = List.assoc 0 !x12_states and b = List.assoc 1 !x12_states and c = List.assoc 2 !x12_states in
             obump "C12.chunks"; obump "C12.perchar"; incr steps;
             if not (holds_C12 a b) then ora "C12" "feed_str_chunking";
             if a.vterm.sb_limit = None && not (holds_C12_lines a b) then ora "C12" "feed_str_chunking_lines";
             if not (holds_C12 a c) then begin
               if known_C12 c && holds_C12 { a with vterm = { a.vterm with sb_limit = Some N0 } } { c with vterm = { c.vterm with sb_limit = Some N0 } }
               then kf "C12" "KF-C12-1" else ora "C12" "per_char_feed"
             end
             else if not (holds_C12_lines a c) then begin
               if a.vterm.sb_limit = None then (if known_C12 c then kf "C12" "KF-C12-1" else ora "C12" "per_char_feed_lines")
             end;
             if a.vterm <> (vt_new a.vterm.cols a.vterm.rows a.vterm.sb_limit).vterm then incr nontrivial
           end
       | "S" when !x11_pending <> None -> (
           let v = vt_of_line l in
           match !x11_pending with
           | Some (k, None) -> x11_pending := Some (k, Some v)
           | Some (k, Some orig) ->
               x11_pending := None;
               incr steps;
               obump "C11.restore";
               if k = 0 then begin
                 x11_class :=
                   (* the classes as narrowed / completed by Proofs/C11More.v: outside them the restore is proved exact *)
                   (if kf1_C11_narrow orig.vterm then "KF-C11-1" else if kf2_C11 orig.vterm then "KF-C11-2"
                    else if kf3_C11 orig.vterm || kf3b_C11 orig.vterm then "KF-C11-3" else "");
                 if orig.vterm <> (vt_new orig.vterm.cols orig.vterm.rows orig.vterm.sb_limit).vterm then incr nontrivial;
                 (* the model's dump must be the implementation's dump: checked in trace mode (QD) *)
               end;
               if not (holds_C11 orig v) && not !x11_failed then begin
                 x11_failed := true;
                 if !x11_class <> "" then kf "C11" !x11_class
                 else ora "C11" (Printf.sprintf "restored_state_differs_at_%d" k)
               end
           | None -> ())
       | "XSTRESS" ->
           let sp = String.split_on_char ' ' l in
           (match sp with
            | _ :: id :: verdict :: ms :: _ ->
                incr steps; bump "stress.cases"; incr nontrivial;
                case_id := int_of_string id;
                if verdict = "panic" then emit_div "X" "stress" [ "panic.impl" ]
                else if verdict = "slow" then emit_div "X" "stress" [ "hang.impl"; "ms=" ^ ms ]
            | _ -> ())
       | "X12" -> let t = toks_of_line l in x12_pending := Some (int t)
       | "X11" -> let t = toks_of_line l in x11_pending := Some (int t, None)
       | "X11P" ->
           let t = toks_of_line l in
           obump "C11.public";
           if int t = 0 && not !x11_failed then begin
             x11_failed := true;
             if !x11_class <> "" then kf "C11" !x11_class else ora "C11" "public_observables_differ"
           end;
           x11_failed := false; x11_class := ""
       | "X09" -> let t = toks_of_line l in x09_input := Some (n_list_of_toks t)
       | "QT" when !x09_input <> None -> let t = toks_of_line l in x09_text := strs_of_toks t
       | "QU" -> (
           match !x09_input with
           | Some inp ->
               let t = toks_of_line l in
               let unw = strs_of_toks t in
               incr steps; obump "C09.text";
               if inp <> [] then incr nontrivial;
               if not (holds_C09 inp !x09_text unw) then ora "C09" "text_differs_from_input";
               (* correspondence of feed_str + text() from a fresh terminal *)
               let c, r, _ = !case_geom in
               (match feed_str (vt_new (nat_of_int c) (nat_of_int r) None) inp with
                | Model.Ok (m, _) -> if vt_text m <> !x09_text then emit_div "Q" "text" [ "text" ]
                | Panic _ -> emit_div "Q" "text" [ "panic.model" ])
           | None -> ())
       | "X14" ->
           let t = toks_of_line l in
           let _lim = int t in
           let n = int t in let dr = list_of n (fun () -> line t) in
           let m = int t in let ll = list_of m (fun () -> line t) in
           let u = int t in let lu = list_of u (fun () -> line t) in
           let coll = int t in
           incr steps; obump "C14.stream"; obump "C14.collector";
           if n > 0 then incr nontrivial;
           if not (holds_C14 dr ll lu) then ora "C14" "drained_plus_lines_differs_from_unlimited";
           if coll = 0 then ora "C14" "text_collector_differs"
           else if coll = 2 then kf "C14" "KF-C14-1"
       | "S" | "PANIC" -> (
           let post = if tag = "S" then Some (vt_of_line l) else None in
           (try arm ();
           (match (!pre, !pending_op) with
           | None, _ -> (
               (* initial state of a case: compare with the model's constructor *)
               match post with
               | Some p ->
                   prev_view := tview p.vterm;
                   let m = vt_new p.vterm.cols p.vterm.rows p.vterm.sb_limit in
                   let d = diff_vt m p in
                   if d <> [] then emit_div "NEW" "new" d;
                   bump "op.New"
               | None -> ())
           | Some v, `Chars (cs, fn_impl) ->
               incr steps;
               incr step;
               let kind = kind_of_fn_string fn_impl in
               bump ("fn." ^ kind);
               let key = hash_state (!last_state_line ^ l) in
               let r, early = run_chars v cs in
               (match (r, post) with
               | Model.Ok (m, f), Some p ->
                   let fn_model = match f with Some f -> str_of_func f | None -> "-" in
                   if early > 0 then emit_div "C" kind [ "fn.early" ]
                   else if fn_model <> fn_impl then begin
                     emit_div "C" kind [ "fn" ];
                     Printf.printf "FNMISMATCH case=%d step=%d model=[%s] impl=[%s]\n" !case_id !step fn_model fn_impl
                   end;
                   let d = diff_vt m p in
                   if d <> [] then emit_div "C" kind d;
                   if (not (Hashtbl.mem seen key)) && p <> v then begin
                     Hashtbl.add seen key ();
                     incr nontrivial
                   end;
                   (* oracles on the implementation triple *)
                   (* C03: the function emitted by the last character is the one the hand-written tables
                      (Williams diagram + function table) give for the parser state before it *)
                   (match (!last_before, List.rev cs) with
                    | Some pb, c :: _ ->
                        obump "C03.dispatch_table";
                        let s_spec = match spec_emit pb c with Some f -> str_of_func f | None -> "-" in
                        if s_spec <> fn_impl then
                          Printf.printf "ORA prop=C03 case=%d step=%d fn=%s what=dispatch_differs_from_function_table spec=[%s] impl=[%s]\n" !case_id !step kind s_spec fn_impl
                    | _ -> ());
                   (* C03: the specification parser (Williams + function table), run over the same characters from the
                      implementation's pre-state, must emit the same functions and reach the implementation's parser state *)
                   (let (sp, sfs) = spec_run v.vparser cs in
                    obump "C03.spec_parser";
                    let s_fs = match sfs with [] -> "-" | [ f ] -> str_of_func f | _ -> "several" in
                    if s_fs <> fn_impl then begin
                      Printf.printf "ORA prop=C03 case=%d step=%d fn=%s what=emitted_function_differs_from_specification_parser spec=[%s] impl=[%s]\n" !case_id !step kind s_fs fn_impl;
                      (* C08: the pen is the fold of the SGR parameters RECEIVED - a sequence that is not select-graphic-
                         rendition by the specification parser (private marker, intermediate) must not act as one, and vice versa *)
                      let is_sgr x = String.length x >= 3 && String.sub x 0 3 = "Sgr" in
                      if is_sgr s_fs <> is_sgr fn_impl || (is_sgr s_fs && is_sgr fn_impl) then
                        Printf.printf "ORA prop=C08 case=%d step=%d fn=%s what=sgr_received_differs_from_specification_parser spec=[%s] impl=[%s]\n" !case_id !step kind s_fs fn_impl
                    end
                    else if not (parser_eqb sp p.vparser) then
                      Printf.printf "ORA prop=C03 case=%d step=%d fn=%s what=parser_state_differs_from_specification_parser\n" !case_id !step kind);
                   (* C03: dispatch is memoryless - a fresh parser fed the same characters from ground state
                      must emit the same function as the implementation did from its history-laden state *)
                   (if v.vparser.pst = Ground then begin
                      obump "C03.memoryless";
                      match run_chars { v with vparser = init_parser } cs with
                      | Model.Ok (_, f_fresh), _ ->
                          let s_fresh = match f_fresh with Some f -> str_of_func f | None -> "-" in
                          if s_fresh <> fn_impl then
                            Printf.printf "ORA prop=C03 case=%d step=%d fn=%s what=dispatch_depends_on_history fresh=[%s] impl=[%s]\n" !case_id !step kind s_fresh fn_impl
                      | _ -> ()
                    end);
                   (if !span_left > 0 then begin
                      (match f with
                       | Some _ when !span_claim ->
                           if !span_known then Printf.printf "KF prop=C20 id=KF-C20-1 case=%d step=%d\n" !case_id !step
                           else Printf.printf "ORA prop=C20 case=%d step=%d fn=%s what=function_emitted_inside_inert_sequence\n" !case_id !step kind
                       | _ -> ());
                      span_left := !span_left - List.length cs
                    end);
                   (match f with
                   | Some _ when Model.claims_inert v cs ->
                       if Model.known_C20 cs then Printf.printf "KF prop=C20 id=KF-C20-1 case=%d step=%d\n" !case_id !step
                       else Printf.printf "ORA prop=C20 case=%d step=%d fn=%s what=function_emitted_by_inert_sequence\n" !case_id !step kind
                   | _ -> ());
                   (match f with
                   | Some f ->
                       List.iter
                         (fun (prop, what) ->
                           Printf.printf "ORA prop=%s case=%d step=%d fn=%s what=%s\n" prop !case_id !step kind what)
                         (Oracles_glue.step_oracles obump v f p);
                       (* KF-C04-1: auto-wrap on a bottom margin above the last row loses the soft-wrap mark *)
                       if Model.kf1_C04 v f && Model.wrapmark_lost v f p then kf "C04" "KF-C04-1";
                       if Model.kf1_C07 v f && Model.wrapmark_kept v f p then kf "C07" "KF-C07-1";
                       (* KF-C17-1: a soft reset discards the saved cursor of the shown screen (DEC STD 070), although the
                          property's quantifier lists "soft reset" among the inputs a save / restore round trip survives *)
                       if Model.kf1_C17 v f && Model.ctx_eqb p.vterm.sctx Model.default_ctx then kf "C17" "KF-C17-1"
                   | None ->
                       List.iter
                         (fun (prop, what) ->
                           Printf.printf "ORA prop=%s case=%d step=%d fn=%s what=%s\n" prop !case_id !step kind what)
                         (Oracles_glue.nofn_oracles obump v cs p))
               | Panic s, Some _ -> emit_div "C" kind [ "panic.model." ^ string_of_int (int_of_nat s) ]
               | Model.Ok _, None -> emit_div "C" kind [ "panic.impl" ]
               | Panic _, None -> bump "panic.both")
           | Some v, ((`Flush | `Resize _) as o) ->
               incr steps;
               incr step;
               let opn, mop =
                 match o with
                 | `Flush -> ("L", Flush)
                 | `Resize (c, r) -> ("R", Resize (nat_of_int c, nat_of_int r))
               in
               bump ("op." ^ opn);
               (match (stepM v mop, post) with
               | Model.Ok (m, out), Some p ->
                   let d = diff_vt m p in
                   let d =
                     match !pending_out with
                     | Some (ls, dr) ->
                         (if out.o_lines <> ls then [ "out.lines" ] else [])
                         @ (if out.o_drained <> dr then [ "out.drained" ] else [])
                         @ d
                     | None -> "out.missing" :: d
                   in
                   if d <> [] then emit_div opn opn d;
                   let key = hash_state (!last_state_line ^ l) in
                   if (not (Hashtbl.mem seen key)) && p <> v then begin
                     Hashtbl.add seen key ();
                     incr nontrivial
                   end;
                   let ls, dr = match !pending_out with Some x -> x | None -> ([], []) in
                   List.iter
                     (fun (prop, what) ->
                       Printf.printf "ORA prop=%s case=%d step=%d fn=%s what=%s\n" prop !case_id !step opn what)
                     (Oracles_glue.call_oracles obump v mop p ls dr !prev_view);
                   prev_view := tview p.vterm
               | Panic s, Some _ -> emit_div opn opn [ "panic.model." ^ string_of_int (int_of_nat s) ]
               | Model.Ok _, None -> emit_div opn opn [ "panic.impl" ]
               | Panic _, None -> bump "panic.both")
           | Some _, `None -> ());
            disarm ()
            with Step_timeout -> disarm (); emit_div (match !pending_op with `Chars _ -> "C" | `Flush -> "L" | `Resize _ -> "R" | `None -> "N") "timeout" [ "model.timeout" ]);
           pre := post;
           pending_op := `None;
           pending_out := None;
           if tag = "S" then last_state_line := l)
       | "QD" -> (
           match !pre with
           | Some v -> (
               let t = toks_of_line l in
               let d = n_list_of_toks t in
               bump "q.dump";
               match vt_dump v with
               | Model.Ok m -> if m <> d then emit_div "Q" "dump" [ "dump" ]
               | Panic _ -> emit_div "Q" "dump" [ "panic.model" ])
           | None -> ())
       | "QT" -> (
           match !pre with
           | Some v ->
               let t = toks_of_line l in
               let k = int t in
               let ls = list_of k (fun () -> n_list_of_toks t) in
               bump "q.text";
               if vt_text v <> ls then emit_div "Q" "text" [ "text" ]
           | None -> ())
       | "QG" -> (
           match !pre with
           | Some v ->
               let t = toks_of_line l in
               let c = int t in
               let r = int t in
               let cc = int t in
               let cr = int t in
               let vis = boolean t in
               let ckm = boolean t in
               let nview = int t in
               let nlines = int t in
               let view = list_of nview (fun () -> line t) in
               bump "q.geom";
               let tm = v.vterm in
               let ok =
                 int_of_nat tm.cols = c && int_of_nat tm.rows = r && int_of_nat tm.cur_col = cc
                 && int_of_nat tm.cur_row = cr && tm.cur_vis = vis && tm.ckm = ckm
                 && List.length tm.buf.lines = nlines
                 && (match vt_view v with Model.Ok mv -> mv = view | Panic _ -> false)
               in
               if not ok then emit_div "Q" "geom" [ "public" ]
           | None -> ())
       | "SW" ->
           let t = toks_of_line l in
           sweep_state := int t;
           let cs = n_list_of_toks t in
           sweep_parser := feed_all init_parser cs;
           sweep_spec_parser := fst (spec_run init_parser cs);
           sweep_intro := List.map int_of_n cs;
           (match !sweep_parser with
            | Some p when int_of_pstate p.pst = !sweep_state -> ()
            | _ -> incr divs; Printf.printf "DIV case=-1 step=0 op=SW fn=sweep comps=sweep.intro state=%d\n" !sweep_state)
       | "RUN" -> (
           match !sweep_parser with
           | None -> ()
           | Some p ->
               let sp = String.split_on_char ' ' l in
               (match sp with
                | _ :: lo :: hi :: rest ->
                    let lo = int_of_string lo and hi = int_of_string hi in
                    let sg = String.concat " " rest in
                    incr sweep_runs;
                    sweep_cells := !sweep_cells + (hi - lo + 1) - (if lo <= 0xD7FF && hi >= 0xE000 then 0x800 else 0);
                    let pts = lo :: List.filter (fun b -> lo < b && b <= hi && not (b >= 0xD800 && b <= 0xDFFF)) breakpoints in
                    List.iter
                      (fun c ->
                        incr sweep_points;
                        let sp = spec_sig !sweep_spec_parser c in
                        if sp <> sg then begin
                          (* C03 is a statement about this very table: the implementation's transition / action for
                             (state, character) differs from the specification - a concrete failing input *)
                          let inp = String.concat "," (List.map string_of_int (!sweep_intro @ [ c ])) in
                          Printf.printf "ORA prop=C03 kind=sweep state=%d char=%d input=[%s] spec=[%s] impl=[%s]\n" !sweep_state c inp sp sg;
                          (* C20: inside a control string or a CSI / DCS sequence the specification consumes this character
                             silently (same state, no function) - the implementation ends the sequence or emits something *)
                          let marked = List.exists (fun x -> (x >= 0x3c && x <= 0x3f) || (x >= 0x20 && x <= 0x2f)) !sweep_intro in
                          if (!sweep_state >= 6 || (!sweep_state >= 3 && marked)) && sp = string_of_int !sweep_state ^ " -" then
                            Printf.printf "ORA prop=C20 kind=sweep state=%d char=%d input=[%s] spec=[%s] impl=[%s]\n" !sweep_state c inp sp sg
                        end;
                        let m = model_sig p c in
                        if m <> sg then begin
                          incr divs;
                          Printf.printf "DIV case=-1 step=0 op=SW fn=sweep comps=sweep.cell state=%d char=%d model=[%s] impl=[%s]\n"
                            !sweep_state c m sg
                        end)
                      pts
                | _ -> ()))
       | "QPANIC" -> emit_div "Q" "query" [ "panic.impl" ]
       | "ECHO" ->
           (* decided by the harness on the implementation alone (Vt-level scalar sweep: chunking ways, panics) *)
           print_endline (String.sub l 5 (String.length l - 5))
       | "VSTAT" ->
           (match String.split_on_char ' ' l with
            | [ _; feeds; runs; cases ] ->
                Hashtbl.replace stats "vsweep_feeds" (int_of_string feeds);
                Hashtbl.replace stats "vsweep_runs" (int_of_string runs);
                Hashtbl.replace stats "vsweep_trace_cases" (int_of_string cases)
            | _ -> ())
       | "END" -> ()
       | _ -> ()
     done
   with End_of_file -> ());
  close_in ic;
  let b = Buffer.create 1024 in
  Buffer.add_string b (Printf.sprintf "{\"steps\": %d, \"divergences\": %d, \"distinct_nontrivial\": %d, \"sweep_cells\": %d, \"sweep_runs\": %d, \"sweep_points\": %d, \"counts\": {" !steps !divs !nontrivial !sweep_cells !sweep_runs !sweep_points);
  let first = ref true in
  Hashtbl.iter
    (fun k v ->
      if not !first then Buffer.add_string b ", ";
      first := false;
      Buffer.add_string b (Printf.sprintf "\"%s\": %d" k v))
    stats;
  Buffer.add_string b "}, \"oracle_evals\": {";
  first := true;
  Hashtbl.iter
    (fun k v ->
      if not !first then Buffer.add_string b ", ";
      first := false;
      Buffer.add_string b (Printf.sprintf "\"%s\": %d" k v))
    oracle_evals;
  Buffer.add_string b "}}";
  Printf.printf "STAT %s\n" (Buffer.contents b)
