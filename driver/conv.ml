(* Conversions between OCaml ints / token streams and the extracted Coq types,
   plus the parser for the canonical state format written by Vt::verif_state. *)
type str = string
open Model

let rec nat_of_int (i : int) : nat = if i <= 0 then O else S (nat_of_int (i - 1))

let nat_of_int i =
  (* tail-recursive for large values *)
  let rec go acc i = if i <= 0 then acc else go (S acc) (i - 1) in
  ignore nat_of_int; go O i

let rec int_of_nat (n : nat) : int =
  let rec go acc = function O -> acc | S k -> go (acc + 1) k in
  ignore int_of_nat; go 0 n

let rec pos_of_int (i : int) : positive =
  if i <= 1 then XH else if i land 1 = 1 then XI (pos_of_int (i lsr 1)) else XO (pos_of_int (i lsr 1))

let n_of_int (i : int) : n = if i <= 0 then N0 else Npos (pos_of_int i)

let rec int_of_pos = function XH -> 1 | XO p -> 2 * int_of_pos p | XI p -> 2 * int_of_pos p + 1
let int_of_n = function N0 -> 0 | Npos p -> int_of_pos p

(* ---- token cursor ---- *)
type toks = { a : str array; mutable i : int }

let toks_of_line ?(skip = 1) (s : str) : toks =
  let l = String.split_on_char ' ' s |> List.filter (fun x -> x <> "") in
  { a = Array.of_list l; i = skip }

let next (t : toks) : str =
  if t.i >= Array.length t.a then failwith "token stream exhausted";
  let x = t.a.(t.i) in
  t.i <- t.i + 1; x

let int (t : toks) : int = int_of_string (next t)
let boolean (t : toks) : bool = int t <> 0
let at_end (t : toks) = t.i >= Array.length t.a

let color_of_code (c : int) : color option =
  if c < 0 then None
  else if c < 0x1000000 then Some (Indexed (n_of_int c))
  else
    let v = c - 0x1000000 in
    Some (RGB (n_of_int ((v lsr 16) land 255), n_of_int ((v lsr 8) land 255), n_of_int (v land 255)))

let code_of_color = function
  | None -> -1
  | Some (Indexed i) -> int_of_n i
  | Some (RGB (r, g, b)) -> 0x1000000 + (int_of_n r lsl 16) + (int_of_n g lsl 8) + int_of_n b

let pen (t : toks) : pen =
  let fg = color_of_code (int t) in
  let bg = color_of_code (int t) in
  let i = match int t with 0 -> Normal | 1 -> Bold | _ -> Faint in
  let a = n_of_int (int t) in
  { foreground = fg; background = bg; intensity = i; attrs = a }

let line (t : toks) : line =
  let w = boolean t in
  let nruns = int t in
  let cells = ref [] in
  for _ = 1 to nruns do
    let n = int t in
    let c = n_of_int (int t) in
    let p = pen t in
    let cell = { ch = c; cpen = p } in
    for _ = 1 to n do cells := cell :: !cells done
  done;
  { cells = List.rev !cells; wrapped = w }

let list_of (n : int) (f : unit -> 'a) : 'a list =
  let r = ref [] in
  for _ = 1 to n do r := f () :: !r done;
  List.rev !r

let buffer (t : toks) : buffer =
  let c = int t in
  let r = int t in
  let soft = int t in
  let hard = int t in
  let trim = boolean t in
  let nl = int t in
  let ls = list_of nl (fun () -> line t) in
  { lines = ls; bcols = nat_of_int c; brows = nat_of_int r;
    blimit = (if soft < 0 then None else Some (n_of_int soft, n_of_int hard)); trim_needed = trim }

let ctx (t : toks) : saved_ctx =
  let c = int t in
  let r = int t in
  let p = pen t in
  let o = boolean t in
  let a = boolean t in
  { sc_col = nat_of_int c; sc_row = nat_of_int r; sc_pen = p; sc_origin = o; sc_awm = a }

let pstate_of_int = function
  | 0 -> Ground | 1 -> Escape | 2 -> EscapeIntermediate | 3 -> CsiEntry | 4 -> CsiParam
  | 5 -> CsiIntermediate | 6 -> CsiIgnore | 7 -> DcsEntry | 8 -> DcsParam | 9 -> DcsIntermediate
  | 10 -> DcsPassthrough | 11 -> DcsIgnore | 12 -> OscString | 13 -> SosPmApcString
  | _ -> failwith "bad parser state"

let int_of_pstate = function
  | Ground -> 0 | Escape -> 1 | EscapeIntermediate -> 2 | CsiEntry -> 3 | CsiParam -> 4
  | CsiIntermediate -> 5 | CsiIgnore -> 6 | DcsEntry -> 7 | DcsParam -> 8 | DcsIntermediate -> 9
  | DcsPassthrough -> 10 | DcsIgnore -> 11 | OscString -> 12 | SosPmApcString -> 13

let default_param_ml : param = { cur_part = O; parts = [ N0; N0; N0; N0; N0; N0 ] }

let parser (t : toks) : parser0 =
  let st = pstate_of_int (int t) in
  let cp = int t in
  let inter = int t in
  let used = int t in
  let ps =
    list_of used (fun () ->
        let c = int t in
        let parts = list_of 6 (fun () -> n_of_int (int t)) in
        { cur_part = nat_of_int c; parts })
  in
  let rec pad l k = if k <= 0 then l else pad (l @ [ default_param_ml ]) (k - 1) in
  { pst = st; params = pad ps (32 - used); cur_param = nat_of_int cp;
    inter = (if inter < 0 then None else Some (n_of_int inter)) }

let term (t : toks) : term =
  let c = int t in
  let r = int t in
  let alt = boolean t in
  let lim = int t in
  let ccol = int t in
  let crow = int t in
  let cvis = boolean t in
  let p = pen t in
  let cs0 = if boolean t then CsDrawing else CsAscii in
  let cs1 = if boolean t then CsDrawing else CsAscii in
  let acs = int t in
  let nt = int t in
  let tabs = list_of nt (fun () -> nat_of_int (int t)) in
  let ins = boolean t in
  let org = boolean t in
  let awm = boolean t in
  let nlm = boolean t in
  let ckm = boolean t in
  let pend = boolean t in
  let top = int t in
  let bot = int t in
  let xtw = boolean t in
  let sctx = ctx t in
  let asctx = ctx t in
  let nd = int t in
  let dirty = list_of nd (fun () -> boolean t) in
  let buf = buffer t in
  let other = buffer t in
  { cols = nat_of_int c; rows = nat_of_int r; buf; other;
    active = (if alt then Alternate else Primary);
    sb_limit = (if lim < 0 then None else Some (n_of_int lim));
    cur_col = nat_of_int ccol; cur_row = nat_of_int crow; cur_vis = cvis; tpen = p; cs0; cs1;
    acs = nat_of_int acs; tabs; ins; org; awm; nlm; ckm; pend; top = nat_of_int top;
    bot = nat_of_int bot; sctx; asctx; dirty; xtw }

let vt_of_line (s : str) : vt =
  let t = toks_of_line s in
  let p = parser t in
  let tm = term t in
  if not (at_end t) then failwith "trailing tokens in state";
  { vparser = p; vterm = tm }

(* ---- canonical function printer (same format as the Rust harness) ---- *)
let str_of_func (f : func) : str =
  let u n = string_of_int (int_of_n n) in
  let dec = function
    | CursorKeys -> "CursorKeys" | Origin -> "Origin" | AutoWrap -> "AutoWrap"
    | TextCursorEnable -> "TextCursorEnable" | AltScreenBuffer -> "AltScreenBuffer"
    | SaveCursor -> "SaveCursor" | SaveCursorAltScreenBuffer -> "SaveCursorAltScreenBuffer" in
  let ansi = function Insert -> "Insert" | NewLine -> "NewLine" in
  let lst name f l = name ^ " " ^ string_of_int (List.length l) ^ String.concat "" (List.map (fun x -> " " ^ f x) l) in
  let cs = function CsAscii -> "Ascii" | CsDrawing -> "Drawing" in
  let sgr = function
    | Reset -> "Reset" | SetBoldIntensity -> "SetBoldIntensity" | SetFaintIntensity -> "SetFaintIntensity"
    | SetItalic -> "SetItalic" | SetUnderline -> "SetUnderline" | SetBlink -> "SetBlink"
    | SetInverse -> "SetInverse" | SetStrikethrough -> "SetStrikethrough" | ResetIntensity -> "ResetIntensity"
    | ResetItalic -> "ResetItalic" | ResetUnderline -> "ResetUnderline" | ResetBlink -> "ResetBlink"
    | ResetInverse -> "ResetInverse" | ResetStrikethrough -> "ResetStrikethrough"
    | SetForegroundColor c -> "SetForegroundColor " ^ string_of_int (code_of_color (Some c))
    | ResetForegroundColor -> "ResetForegroundColor"
    | SetBackgroundColor c -> "SetBackgroundColor " ^ string_of_int (code_of_color (Some c))
    | ResetBackgroundColor -> "ResetBackgroundColor" in
  match f with
  | Bs -> "Bs" | Cbt n -> "Cbt " ^ u n | Cha n -> "Cha " ^ u n | Cht n -> "Cht " ^ u n
  | Cnl n -> "Cnl " ^ u n | Cpl n -> "Cpl " ^ u n | Cr -> "Cr"
  | Ctc CtcSet -> "Ctc Set" | Ctc CtcClearCurrentColumn -> "Ctc ClearCurrentColumn"
  | Ctc CtcClearAll -> "Ctc ClearAll"
  | Cub n -> "Cub " ^ u n | Cud n -> "Cud " ^ u n | Cuf n -> "Cuf " ^ u n
  | Cup (r, c) -> "Cup " ^ u r ^ " " ^ u c | Cuu n -> "Cuu " ^ u n | Dch n -> "Dch " ^ u n
  | Decaln -> "Decaln" | Decrc -> "Decrc" | Decrst ms -> lst "Decrst" dec ms | Decsc -> "Decsc"
  | Decset ms -> lst "Decset" dec ms | Decstbm (t, b) -> "Decstbm " ^ u t ^ " " ^ u b
  | Decstr -> "Decstr" | Dl n -> "Dl " ^ u n | Ech n -> "Ech " ^ u n
  | Ed EdBelow -> "Ed Below" | Ed EdAbove -> "Ed Above" | Ed EdAll -> "Ed All"
  | Ed EdSavedLines -> "Ed SavedLines"
  | El ElToRight -> "El ToRight" | El ElToLeft -> "El ToLeft" | El ElAll -> "El All"
  | G1d4 c -> "G1d4 " ^ cs c | Gzd4 c -> "Gzd4 " ^ cs c | Ht -> "Ht" | Hts -> "Hts"
  | Ich n -> "Ich " ^ u n | Il n -> "Il " ^ u n | Lf -> "Lf" | Nel -> "Nel"
  | Print c -> "Print " ^ u c | Rep n -> "Rep " ^ u n | Ri -> "Ri" | Ris -> "Ris"
  | Rm ms -> lst "Rm" ansi ms | Scorc -> "Scorc" | Scosc -> "Scosc" | Sd n -> "Sd " ^ u n
  | Sgr ops -> lst "Sgr" sgr ops | Si -> "Si" | Sm ms -> lst "Sm" ansi ms | So -> "So"
  | Su n -> "Su " ^ u n | Tbc TbcCurrentColumn -> "Tbc CurrentColumn" | Tbc TbcAll -> "Tbc All"
  | Vpa n -> "Vpa " ^ u n | Vpr n -> "Vpr " ^ u n
  | Xtwinops (XtwinopsResize (c, r)) -> "Xtwinops " ^ u c ^ " " ^ u r

let kind_of_fn_string (s : str) : str =
  match String.index_opt s ' ' with Some i -> String.sub s 0 i | None -> s

(* ---- component-wise comparison of two states; returns the names that differ ---- *)
let diff_buffer (pre : str) (a : buffer) (b : buffer) : str list =
  let d = ref [] in
  let add x = d := (pre ^ x) :: !d in
  if a.bcols <> b.bcols || a.brows <> b.brows then add "geom";
  if a.blimit <> b.blimit then add "limit";
  if a.trim_needed <> b.trim_needed then add "trim";
  if a.lines <> b.lines then begin
    let la = List.length a.lines and lb = List.length b.lines in
    if la <> lb then add "nlines";
    let ra = int_of_nat a.brows and rb = int_of_nat b.brows in
    let rec drop k l = if k <= 0 then l else match l with [] -> [] | _ :: r -> drop (k - 1) r in
    let rec take k l = if k <= 0 then [] else match l with [] -> [] | x :: r -> x :: take (k - 1) r in
    let va = drop (la - ra) a.lines and vb = drop (lb - rb) b.lines in
    if va <> vb then begin
      if List.map (fun l -> l.cells) va <> List.map (fun l -> l.cells) vb then add "view";
      if List.map (fun l -> l.wrapped) va <> List.map (fun l -> l.wrapped) vb then add "wrap"
    end;
    if take (la - ra) a.lines <> take (lb - rb) b.lines then add "scrollback"
  end;
  !d

let diff_term (a : term) (b : term) : str list =
  let d = ref [] in
  let add x = d := x :: !d in
  if a.cols <> b.cols || a.rows <> b.rows then add "size";
  if a.active <> b.active then add "active";
  if a.sb_limit <> b.sb_limit then add "sb_limit";
  if a.cur_col <> b.cur_col || a.cur_row <> b.cur_row || a.pend <> b.pend then add "cursor";
  if a.cur_vis <> b.cur_vis then add "cur_vis";
  if a.tpen <> b.tpen then add "pen";
  if a.cs0 <> b.cs0 || a.cs1 <> b.cs1 || a.acs <> b.acs then add "charset";
  if a.tabs <> b.tabs then add "tabs";
  if a.ins <> b.ins || a.org <> b.org || a.awm <> b.awm || a.nlm <> b.nlm || a.ckm <> b.ckm then add "modes";
  if a.top <> b.top || a.bot <> b.bot then add "margins";
  if a.sctx <> b.sctx then add "sctx";
  if a.asctx <> b.asctx then add "asctx";
  if a.xtw <> b.xtw then add "xtw";
  if a.dirty <> b.dirty then begin
    (* a = model, b = implementation *)
    if List.length a.dirty <> List.length b.dirty then add "dirty_len"
    else begin
      if List.exists2 (fun m i -> m && not i) a.dirty b.dirty then add "dirty_under";
      if List.exists2 (fun m i -> (not m) && i) a.dirty b.dirty then add "dirty_over"
    end
  end;
  !d @ diff_buffer "buf." a.buf b.buf @ diff_buffer "other." a.other b.other

let diff_vt (a : vt) (b : vt) : str list =
  (if a.vparser <> b.vparser then
     (if a.vparser.pst <> b.vparser.pst then [ "parser.state" ] else [])
     @ (if a.vparser.params <> b.vparser.params || a.vparser.cur_param <> b.vparser.cur_param then [ "parser.params" ] else [])
     @ (if a.vparser.inter <> b.vparser.inter then [ "parser.inter" ] else [])
   else [])
  @ diff_term a.vterm b.vterm
